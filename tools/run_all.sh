#!/bin/sh
# usage: tools/run_all.sh [quick|thorough] [ids...]  -- runs the registered checks one after the other, prints a summary line each
T=${1:-quick}; shift
IDS="$@"
[ -z "$IDS" ] && IDS=$(/venv/bin/python -c "import json; print(' '.join(c['property_id'] for c in json.load(open('MANIFEST.json'))['checks']))")
for id in $IDS; do
  s=$(date +%s)
  out=$(cd "$(dirname "$0")/.." && ./check $id --tier $T 2>&1)
  rc=$?
  e=$(date +%s)
  echo "$id rc=$rc $((e-s))s | $(echo "$out" | grep -E "^$id tier" | cut -c1-160)"
  echo "$out" | grep -E "VIOLATION|INCONCLUSIVE|NOTE|KNOWN-FINDING" | cut -c1-220 | sed 's/^/    /'
done
