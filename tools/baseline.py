#!/venv/bin/python
"""Run the pinned baseline suite (guard off) and report any stable_pass test that no longer passes.
usage: baseline.py [repo_dir [test paths...]]   (with test paths: only those files are run and compared)"""
import json, subprocess, sys, tempfile, os, xml.etree.ElementTree as ET
repo = sys.argv[1] if len(sys.argv) > 1 else "/repo"
base = json.load(open("/root/.vp/BASELINE.json"))
fd, out = tempfile.mkstemp(suffix=".xml"); os.close(fd)
env = dict(os.environ); env.pop("PYDCOP_VERIF", None); env["PYTHONPATH"] = repo
cmd = ["/venv/bin/python", "-m", "pytest", "-ra", "-q", "-p", "no:cacheprovider", "--timeout=900",
       "--continue-on-collection-errors", "--junitxml=" + out]
paths = sys.argv[2:]
cmd += paths
p = subprocess.run(cmd, cwd=repo, env=env, stdout=subprocess.PIPE, stderr=subprocess.STDOUT, text=True)
passed = set()
for tc in ET.parse(out).getroot().iter("testcase"):
    if not any(c.tag in ("failure", "error", "skipped") for c in tc):
        passed.add(tc.get("classname") + "::" + tc.get("name"))
os.unlink(out)
mods = [q[:-3].replace("/", ".") for q in paths]
expected = [t for t in base["stable_pass"] if not paths or any(t.startswith(m + "::") or t.startswith(m + ".") for m in mods)]
missing = [t for t in expected if t not in passed]
print("passed:", len(passed), "stable_pass:", len(expected), "missing:", len(missing))
for m in missing:
    print("  MISSING", m)
print(p.stdout.strip().splitlines()[-1])
sys.exit(1 if missing else 0)
