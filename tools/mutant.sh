#!/bin/sh
# usage: tools/mutant.sh <Cxx> <file-relative-to-repo> <sed-expression> [tier]
# Applies a one-line mutation to a scratch copy of /repo, runs the check against it, removes the copy.
P=$1; F=$2; E=$3; T=${4:-quick}
D=$(mktemp -d /tmp/mut.XXXXXX)
rsync -a --exclude .git --exclude '*.pyc' --exclude __pycache__ /repo/ "$D/"
sed -i "$E" "$D/$F"
if diff -q /repo/$F "$D/$F" >/dev/null; then echo "MUTATION DID NOT APPLY"; rm -rf "$D"; exit 3; fi
diff /repo/$F "$D/$F" | head -6
VERIF_REPO="$D" VERIF_EVIDENCE_DIR="$D/.evidence" /verif/check "$P" --tier "$T" 2>&1 | grep -v "^ " | tail -${TAILN:-4}
rc=$?
rm -rf "$D"
