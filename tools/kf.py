#!/venv/bin/python
"""kf.py add <property> <id> <status> <commit-or-> <what...>   -- maintain known_findings.json (development time only)"""
import json, sys, os
p = os.path.join(os.path.dirname(os.path.dirname(os.path.abspath(__file__))), "known_findings.json")
d = json.load(open(p))
_, cmd, prop, fid, status, commit, *what = sys.argv
what = " ".join(what)
d["findings"] = [e for e in d["findings"] if e["id"] != fid]
e = {"property": prop, "id": fid, "status": status, "what": what}
if status == "fixed":
    e["commit"] = commit
    e["line"] = "fixed: property=%s %s %s" % (prop, commit, what)
d["findings"].append(e)
json.dump(d, open(p, "w"), indent=1)
print("ok", len(d["findings"]))
