#!/bin/sh
# usage: tools/seed_run.sh <seed-id> <tier> <Cxx> [--job name]   -- applies the seeded patch to /repo, runs the check, reverts.
ID=$1; T=$2; shift 2
P=/verif/seeded/$ID/patch.diff; [ -f /verif/seeded/$ID/patch_rebased.diff ] && P=/verif/seeded/$ID/patch_rebased.diff; cd /repo && git apply $P || { echo "patch does not apply"; exit 3; }
cd /verif
VERIF_EVIDENCE_DIR=/tmp/seed_ev_$ID ./check "$@" --tier $T 2>&1 | grep -v "^  job" | tail -6 | cut -c1-400
git -C /repo checkout -- . 
rm -rf /tmp/seed_ev_$ID
git -C /repo status --short | head -3
