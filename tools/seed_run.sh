#!/bin/sh
# usage: tools/seed_run.sh <seed-id> <tier> <Cxx> [--job name]
# Runs a check against the seeded change.  By default the patch is applied to a scratch worktree of /repo (so other
# checks running on /repo are not disturbed); SEED_DIR=/verif/neutral selects the behaviour-preserving changes; with SEED_INPLACE=1 it is applied to /repo itself and reverted afterwards.
ID=$1; T=$2; shift 2
D=${SEED_DIR:-/verif/seeded}
P=$D/$ID/patch.diff; [ -f $D/$ID/patch_rebased.diff ] && P=$D/$ID/patch_rebased.diff
if [ -n "$SEED_INPLACE" ]; then R=/repo; else
  R=/tmp/seedrun_$ID; git -C /repo worktree remove --force $R 2>/dev/null; git -C /repo worktree add -q --detach $R HEAD || exit 3
fi
git -C $R apply $P || { echo "patch does not apply"; [ -z "$SEED_INPLACE" ] && git -C /repo worktree remove --force $R; exit 3; }
cd /verif
VERIF_REPO=$R VERIF_EVIDENCE_DIR=/tmp/seed_ev_$ID ./check "$@" --tier $T 2>&1 | grep -v "^  job" | tail -6 | cut -c1-400
if [ -n "$SEED_INPLACE" ]; then git -C /repo checkout -- . ; else git -C /repo worktree remove --force $R; fi
rm -rf /tmp/seed_ev_$ID
git -C /repo status --short | head -3
