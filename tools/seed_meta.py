#!/venv/bin/python
"""usage: seed_meta.py <seed-id> <property> <needs_to_manifest> <what_i_ran> <detected_by> <note>  -- writes seeded/<id>/meta.json"""
import json, sys
sid, prop, needs, ran, detected, note = sys.argv[1:7]
json.dump({"seed": sid, "property": prop, "needs_to_manifest": needs, "what_i_ran": ran, "detected_by": detected, "note": note,
           "demo_exit_with_change_without": open('/verif/seeded/%s/demo_rc.txt' % sid).read().split()},
          open('/verif/seeded/%s/meta.json' % sid, 'w'), indent=1)
