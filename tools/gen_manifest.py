#!/venv/bin/python
"""Regenerate MANIFEST.json from the table below and validate it against the schema."""
import json
import os
import sys

VERIF = os.path.dirname(os.path.dirname(os.path.abspath(__file__)))
ALL = ["C%02d" % i for i in range(1, 32)]

S = "bounded symbolic execution of the real Python code with z3 (own path-exhaustive engine), counterexamples replayed concretely"
X = "CrossHair symbolic execution (z3) of the real functions over symbolic strings/containers, counterexamples replayed concretely"

# property -> (engine, level text, level note, design ref, technique)
CLAIMED = {
    "C01": ("S", "Every path of real DpopAlgo computations on the real pseudo-tree, for symbolic integer cost tables and "
                 "solver-chosen start/delivery orders, is explored to an empty frontier and the brute-force optimality "
                 "formula is discharged by z3 on each path; holds for every table value and every FIFO schedule within "
                 "the structure catalogue, not for sampled ones.",
            "Bounded: structures of <= 4 variables, domain <= 3, arity <= 3, integer costs |c| <= 2^40; numpy storage replaced by "
            "object arrays; sleep-set reduction assumes handlers only touch their own computation.", "4/C01", S),
    "C02": ("S", "Real SyncBBComputation objects on the real ordered graph with symbolic binary cost tables and solver-chosen start/delivery orders; "
                 "termination, terminate-flood and brute-force optimality of the held assignment are decided by z3 on every path. Inside the listed "
                 "known-finding region (min objective with a negative cost) counterexamples are reported as KNOWN-FINDING, outside it any counterexample is a violation.",
            "Bounded: <= 3 variables (4 thorough), domain 2 (3 thorough), integer costs |c| <= 2^40; a run longer than 400 transitions counts as non-termination.", "4/C02", S),
    "C03": ("S", "Real MgmComputation / Mgm2Computation objects with symbolic constraint and variable cost tables, arbitrary initial values, "
                 "all offerer/partner/tie draws and FIFO schedules solver-chosen; z3 decides per path that the cost of the per-cycle global state never "
                 "gets worse and that simultaneous movers are MGM2 partners. Two listed MGM2 findings are confined to region predicates and reported as KNOWN-FINDING.",
            "Bounded: <= 3 variables (4 thorough), domain 2, stop_cycle 3 (arbitrary initial assignment makes a cycle an inductive step); canonical schedule on 3-variable "
            "instances in quick; sleep-set independence assumption.", "4/C03", S),
    "C04": ("S", "Same real MGM/MGM2 runs; for every complete cycle without a value change z3 decides that no single-variable change improves the "
                 "symbolic global cost (1-opt), on every path. MGM2 in max mode is a listed known finding (region predicate).",
            "Bounded as C03. Cycles beyond the third are covered only through the arbitrary initial assignment.", "4/C04", S),
    "C05": ("S", "Real Max-Sum (synchronous) and A-Max-Sum computations on the real factor graph of tree-shaped DCOPs with symbolic tables, damping 0, noise 0; the unique optimum a* "
                 "is assumed (every choice of a* explored) and z3/exploration decide on every path that the selected assignment is a* after the budget. A-Max-Sum is a listed known finding.",
            "Bounded: pair and pair+unary factor (quick), chain-3/star-3 (thorough), domain 2; rational arithmetic model with real-valued tables (mixed int/real queries time out); "
            "Max-Sum explored on the canonical schedule (round structure is schedule independent, C08), 8-10 rounds.", "4/C05", S),
    "C06": ("S", "find_arg_optimal / find_optimal / optimal_cost_value / projection and the A-DSA helper are executed on tables whose "
                 "entries are symbolic integers or infinities, and real DSA (A/B/C), A-DSA and DSA-tuto computations run on the bench; "
                 "z3 decides on every path that the returned set is exactly the arg-optimum set with its cost and that every DSA move is a best response.",
            "Bounded: domain <= 3 (4 thorough), <= 2 constraints per variable, integer finite costs |c| <= 2^40 plus +/-inf, NaN excluded; "
            "A-DSA periodic actions fired on a canonical timing (each period: all tick, then all messages delivered in any order).", "4/C06", S),
    "C07": ("S", "Real MGM, MGM2 and DSA computations with stop_cycle chosen in {1,2,3}; start order and FIFO delivery order are solver variables explored exhaustively "
                 "(sleep-set reduced), tables and random draws symbolic; at quiescence z3/concrete checks decide: no handler raised, everyone finished exactly at cycle k "
                 "(or at once without neighbour), nothing undelivered.",
            "Bounded: <= 3 computations, domain 2, k <= 3; canonical schedule for DSA on chain-3 in quick (all schedules in thorough at k=1); a run longer than 150 transitions is reported as non-termination.", "4/C07", S),
    "C08": ("S", "The real SynchronousComputationMixin driven by a probe algorithm that addresses a solver-chosen subset of neighbours each round (return value or post_msg), "
                 "and by real DSA-tuto/Max-Sum computations; every start order and per-channel-FIFO interleaving is explored (sleep-set reduced); the oracle compares each "
                 "on_new_cycle call with the tagged messages actually sent in the previous round.",
            "Bounded: pair (3 rounds), chain-3 (2 rounds), triangle and star-3 (1 complete round in quick, 2 in thorough), subsets fixed per computation on the larger graphs; NCBB not driven.", "4/C08", S),
    "C09": ("S", "Real DbaComputation objects with symbolic table entries in [0, 2*infinity], solver-chosen initial values, tie choices, max_distance in {d, d+1} and FIFO schedules; "
                 "at every finished() call z3 decides that every constraint entry of the assignment held at that moment is below infinity.",
            "Bounded: <= 3 variables, domain <= 3, <= 8 cycles per computation (later finishes outside the claim), canonical schedule on 3-variable graphs in quick.", "4/C09", S),
    "C10": ("S", "One generic harness runs the real computations of all 11 listed algorithms on their real graph models with symbolic tables, symbolic noise and "
                 "arbitrary random choices; a monitor on the value_selection funnel and on current_value decides on every explored path that each reported value is unset or a domain member.",
            "Bounded: pair, pair+isolated variable (chain-3 for some), domain 2, canonical schedule in quick (all schedules on the pair in thorough), 16-40 transitions per run; "
            "maxsum/amaxsum tables are reals (mixed int/real queries time out in z3).", "4/C10", S),
    "C11": ("S", "All eight relation kinds are built on variables in a solver-chosen order with symbolic matrix cells / closure coefficients and a solver-chosen iteration order of the expression "
                 "name set (= all hash seeds); for every full assignment and every partial assignment sliced in 1-2 (3) steps the engine proves keyword == positional == dict == definition, "
                 "remaining dimensions == unassigned variables, and agreement on the completion.",
            "Bounded: 3 variables (4 thorough), domains 2-3, fixed linear expression strings with concrete coefficients; the set-order model picks one permutation of the name universe per run.", "4/C11", S),
    "C14": ("S", "The repository's own YAML dump and load code is executed on DCOPs with symbolic extensional tables (the grouping of equal costs forks on cost equalities), symbolic capacities, routes and hosting "
                 "costs and solver-chosen structure; yaml.dump/load are replaced by a capture/merge of the plain data during symbolic execution and the real YAML text layer is used in concrete replays; "
                 "z3 decides equality of every constraint on every assignment and of every agent's capacity, routes and hosting costs.",
            "PARTIAL (dict layer): PyYAML's text layer is trusted to round-trip plain data and is only exercised on replayed witnesses/counterexamples; one string / one file; symmetric routes and a common default route; "
            "cost-function variables and external 'source:' constraints outside.", "4/C14", S),
    "C15": ("S", "Instances of 54 message classes (all algorithms, orchestration, discovery, replication) with symbolic numeric contents and solver-chosen discrete contents, "
                 "computation definitions of the four graph models built from symbolic DCOPs, and AgentDef objects are sent with the repository's HttpCommunicationLayer.send_msg (requests.post and the module's json replaced by a recorder / a front keeping symbolic numbers), parsed like do_POST and decoded with from_repr "
                 "(AgentDef: __getstate__/__setstate__); field-by-field equality incl. relation values on every assignment is one z3 query per path. Three findings about infinite floats refused by the encoder were repaired by one fix (8fa49bd).",
            "JSON is a 25-line model (real json module in concrete replay); strings come from small fixed sets; the HTTP socket is not exercised. Engine S is used instead of CrossHair (design change, see DESIGN).", "4/C15", S),
    "C16": ("S", "The DCOP structure (number of constraints, every scope) is the solver-chosen input of the three real graph builders; each explored path fixes one structure and the "
                 "builders' output is compared with the definitions computed from the scopes; the frontier is exhausted, i.e. every structure in the bound is decided.",
            "Structural property: no numeric reasoning is involved, the solver only carries the structure as a model (said plainly in DESIGN 4/C16). Bounded: n <= 4 (5), m <= 3, scopes <= 3.", "4/C16", S),
    "C12": ("S", "set_value_for_assignment, join and projection executed on symbolic matrix tables; the cell-wise algebraic definition is one "
                 "solver query per path, for every table value, assignment, scope pair and both argument forms.",
            "Bounded: 4 variables with domains 2,2,3,2, scopes of size <= 3, integer (and real, thorough) entries |c| <= 2^40; numpy float64 rounding above 2^53 not modelled.", "4/C12", S),
    "C13": ("S", "DCOP.solution_cost and assignment_cost executed with symbolic tables, symbolic variable costs and a symbolic (or float) infinity value; "
                 "z3 decides equality with (count of infinite terms, sum of the rest) for every value, and ValueError for every non-empty set of missing variables.",
            "Bounded: catalogue structures <= 4 variables + 1 external variable, integer costs; incomplete = strict subset of declared names.", "4/C13", S),
    "C17": ("S", "Every constraint graph on up to 5 vertices (edge presence solver-chosen), optional ternary constraint and several insertion orders is handed to the real pseudo-tree "
                 "builder and compared with the DFS-forest definition; exhaustive over the structures in the bound.",
            "Structural exploration (each path one graph). Bounded to n <= 5; for the 'long chains up to thousands of variables' part only concrete chains of 6/40/600 (1000/2000 thorough) variables are executed as a probe, which is not a solver decision.", "4/C17", S),
    "C18": ("S", "The real Messaging/InProcessCommunicationLayer/Discovery (and a real Agent whose _run loop is executed synchronously after clean_shutdown) are driven through "
                 "every sequential history of posts/registration/next_msg/shutdown with SYMBOLIC message types: the heap comparisons fork on them and z3 decides, at every hand-over, "
                 "lowest type first and FIFO per (sender, destination) among equal types; exactly-once and late-destination delivery are checked on every history.",
            "PARTIAL: sequential histories only (<= 4/5 operations, <= 3/4 posts at agent level). The 'interleavings of posts from concurrent threads' part of the property is outside the claim: "
            "no solver-based tool here models CPython thread switches.", "4/C18", S),
    "C19": ("S", "A real MessagePassingComputation is driven through every history of up to 6 (8) operations among receive/post/pause/resume/start chosen by the engine; "
                 "handled == received and sent == posted, in order, exactly once, on every history.",
            "Histories are sequences of concrete operations (no numeric symbolic input); re-injected priority-19 messages are modelled as handled before newer ones (what C18 establishes for the agent queue).", "4/C19", S),
    "C20": ("S", "A real Directory/DirectoryComputation and the real Discovery/DiscoveryComputation of an observer and an actor agent are wired on the bench; every history of <= 4 (5) operations "
                 "(register/unregister computation and replica; subscribe/unsubscribe computation, replicas, agent) is interleaved with message deliveries in every per-channel-FIFO order by the engine; "
                 "after the final drain the observer's view of every still-subscribed item must equal the directory's and callbacks must have fired on change.",
            "Discrete exploration (no numeric input). One observer, one actor, one computation and its replica; 'any order' is read as FIFO per channel. One listed finding (replica notifications for an unknown computation).", "4/C20", S),
    "C22": ("S", "The real Orchestrator/AgentsMgt (constructed without threads) receives, in every per-agent-FIFO interleaving, the value-change and end-of-computation messages produced by a real DPOP run "
                 "on the bench with symbolic cost tables, for three distributions; the stop order must be issued exactly at the last end-of-computation, and z3 decides that the reported cost/violation "
                 "equal DCOP.solution_cost of the reported assignment and that the assignment is optimal. Also: the start-up phase (registration of used and spare agents through the real directory / "
                 "discovery message path, deployment, computation registration, run order) in every interleaving, and Orchestrator.run() executed by a helper thread in lockstep with the orchestrator's "
                 "own thread (every interleaving at its synchronisation points).",
            "PARTIAL: the orchestrator's accounting, start-up and run loop. Pre-emptive thread scheduling at a finer grain than the synchronisation points, timeouts, run.py, the solve command and process mode are outside (no solver-based tool models OS threads); DPOP explored on its canonical schedule in quick.", "4/C22", S),
    "C23": ("S", "oneagent, adhoc, heur_comhost and gh_cgdp distribute() executed on real computation graphs with symbolic capacities, per-node symbolic footprints, zero/positive symbolic hosting costs, "
                 "symbolic routes, solver-chosen must_host hints and random draws; for every returned mapping z3 decides 'each computation once on a declared agent, hints honoured, footprint sums within capacity', "
                 "any exception other than ImpossibleDistributionException is a violation. Two listed findings (hints ignored by three methods; adhoc must_host capacity).",
            "Bounded: <= 3 computations, 1-2 agents in quick (3 in thorough), real-valued parameters in [0, 2^20], unit message load. The ILP methods' solve step cannot run (no GLPK); the distribute command (file I/O) is outside.", "4/C23", S),
    "C24": ("S", "oilp_cgdp.ilp_cgdp and ilp_fgdp.factor_graph_lp_model are executed with symbolic capacities, footprints, hosting costs and routes flowing through PuLP's coefficient arithmetic; "
                 "LpProblem.solve is replaced by a capture of the built model. For every 0/1 point z3 decides, for all parameter values, model-feasible <=> the method's hard rules, and objective == the method's own "
                 "distribution_cost of the decoded placement. One listed finding (load of a pair joined by several links counted once in the objective, once per link in distribution_cost); the finding about pinned computations was repaired (6d27a91), the check being the validation of the repaired model.",
            "Model == specification only: the LP solver itself (GLPK, not installed) is trusted and never run. Bounded: <= 3 computations x 2 agents (3 in thorough), unit message load, real parameters in [0, 2^20].", "4/C24", S),
    "C25": ("S", "Real UCSReplication computations (one per agent, real Discovery, stand-in Agent) exchange their real messages on the bench with symbolic capacities, footprints, hosting and route costs "
                 "(the sorted path tables fork on them), k chosen, FIFO interleavings explored; z3 decides at every acceptance the capacity inequality recomputed from the replicas actually held, and the final "
                 "placement is checked (everyone done, distinct non-owner hosts, <= k, recorded in discovery, known to the owner).",
            "Bounded: 3 agents in a line with one computation each (canonical schedule with symbolic costs; all interleavings with pinned costs), a 4-computation star with two computations on one agent; k <= 2; "
            "no directory (discoveries pre-filled); agent departures outside.", "4/C25", S),
    "C26": ("S", "create_*_constraint called with symbolic footprints, remaining capacity, hosting and communication costs and every binary assignment of the repair variables; z3 decides equality with the "
                 "defining sums / '0 iff' rules. removal._removal_* run on every real Discovery state in the bound (hosting, replica sets, departed subsets) and compared with the repair rules.",
            "Bounded: <= 3 (4) repair variables per constraint; chain of 3 computations on 3 agents (triangle on 4 in thorough), replica sets <= 2, departed subsets <= 2.", "4/C26", S),
    "C28": ("S", "For every shipped algorithm module the declared algo_params are read at run time and prepare_algo_params / AlgorithmDef.build_with_default_param / build_algo_def are executed on "
                 "every combination (in the bound) of given parameters and value kinds; the expected result is computed from the AlgoParameterDef tuples. The engine enumerates the space exhaustively.",
            "Discrete exploration with representative value pools per declared type (no symbolic strings: CrossHair was planned, Engine S's bounded choices are used instead, see DESIGN); <= 2 parameters given at once.", "4/C28", S),
    "C29": ("S", "Every batch parameter definition in the bound (shape solver-chosen: scalars, lists, nested dicts, empty definitions) goes through regularize_parameters / parameters_configuration / "
                 "build_option_for_parameters and is compared with an independent itertools.product oracle; determinism w.r.t. the order of the definition is checked too.",
            "Discrete exploration (no numeric symbolic input); <= 3 (4) parameters, one nested level, values distinct after str().", "4/C29", S),
    "C30": ("S", "generate_scenario with random.sample as an arbitrary (explored) k-subset; graph-colouring constraint generators and generate() on every graph with <= 4 vertices (edges solver-chosen, "
                 "soft costs symbolic in [0,9], networkx random generators stubbed by the chosen graph); generate_ising on 2x2..3x3 grids with identical couplings in both forms: forms agree on every assignment, "
                 "distributions host each computation once.",
            "PARTIAL: the real networkx random-graph generators, CLI parsing and file output are not exercised; Ising couplings of the intentional form come from a representative set (they are formatted into strings).", "4/C30", S),
    "C31": ("S", "AgentDef.route/hosting_cost/attribute access and create_agents (list, range, tuple-of-lists indexes) executed with symbolic route costs, default route, hosting costs, "
                 "default hosting cost and capacity; presence of each specific entry is solver-chosen; the cost model and field-by-field equality with individually built agents are decided by z3.",
            "Names are drawn from small fixed sets of strings (no symbolic strings); Engine S is used instead of CrossHair (design change, see DESIGN).", "4/C31", S),
}

NOT_APPLICABLE = {
    "C21": "observable is OS-thread identity under real preemption; symbolic execution of Python cannot model CPython thread switches (see DESIGN 4/C21)",
    "C27": "needs the whole threaded resilient runtime with agent departures; not encodable for a solver within reach (pieces claimed under C25/C26/C03/C07)",
}
PENDING = "check not built yet in this round (planned, see DESIGN section 4)"


def main():
    checks = []
    for pid in ALL:
        if pid not in CLAIMED:
            continue
        eng, text, note, ref, tech = CLAIMED[pid]
        checks.append({
            "property_id": pid,
            "quick_cmd": "./check %s --tier quick" % pid,
            "thorough_cmd": "./check %s --tier thorough" % pid,
            "evidence_file": "/verif/evidence/%s.json" % pid,
            "replay_cmd_template": "./check %s --replay {path}" % pid,
            "engine": "engine-S" if eng == "S" else "crosshair",
            "level_claimed": {"category": "other", "text": text, "design_ref": ref},
            "level_note": note,
            "technique": tech,
        })
    na = []
    for pid in ALL:
        if pid in CLAIMED:
            continue
        na.append({"property_id": pid, "reason": NOT_APPLICABLE.get(pid, PENDING)})
    man = {
        "version": 1,
        "setup_cmd": "./setup.sh",
        "hooks": {
            "guard": "PYDCOP_VERIF",
            "enable": "no source hooks are needed: checks import /repo's working tree and rebind module globals from the harness process",
            "baseline_off_cmd": "cd /repo && /venv/bin/python -m pytest -ra -q -p no:cacheprovider --timeout=900 --continue-on-collection-errors",
            "source_commits": [],
            "add_only": True,
        },
        "engines": [
            {"name": "engine-S", "path": "/verif/symex", "serves_properties": [p for p in ALL if p in CLAIMED and CLAIMED[p][0] == "S"],
             "kind_free_text": "own path-exhaustive symbolic executor for Python numeric code on z3 (SymNum proxy, forking branches, bounded choices, sleep-set scheduler)"},
            {"name": "crosshair", "path": "/verif/xh", "serves_properties": [p for p in ALL if p in CLAIMED and CLAIMED[p][0] == "X"],
             "kind_free_text": "CrossHair 0.0.110 (symbolic execution of Python with z3) for string/container-shaped functions"},
        ],
        "checks": checks,
        "not_applicable": na,
        "notes": "All checks: cwd=/verif, execute /repo's current working tree (VERIF_REPO overrides), exit 0/1/2 = held / reproduced violation / inconclusive. Known findings: /verif/known_findings.json.",
    }
    path = os.path.join(VERIF, "MANIFEST.json")
    with open(path, "w") as f:
        json.dump(man, f, indent=1)
    try:
        import jsonschema
        jsonschema.validate(man, json.load(open("/root/.vp/MANIFEST.schema.json")))
        print("MANIFEST.json valid;", len(checks), "checks,", len(na), "not claimed")
    except ImportError:
        print("written (jsonschema unavailable)")


if __name__ == "__main__":
    sys.path.insert(0, VERIF)
    main()
