#!/bin/sh
# usage: tools/seed_import.sh <worktree> <seed-id> <property>
# Saves the worktree's uncommitted change + demo under /verif/seeded/<seed-id>/ after confirming that the demo fails with
# the change and passes without it, and that the unit tests still pass with it.
W=$1; ID=$2; P=$3
S=/verif/seeded/$ID; mkdir -p $S
git -C $W diff -- pydcop > $S/patch.diff
cp $W/demo_seed.py $S/demo_seed.py
cd $W
PYTHONPATH=$W timeout 300 /venv/bin/python demo_seed.py > $S/demo_with.txt 2>&1; RC_WITH=$?
git stash -q
PYTHONPATH=$W timeout 300 /venv/bin/python demo_seed.py > $S/demo_without.txt 2>&1; RC_WITHOUT=$?
git stash pop -q
echo "demo with change: exit $RC_WITH ; without: exit $RC_WITHOUT"
echo "$RC_WITH $RC_WITHOUT" > $S/demo_rc.txt
