#!/bin/sh
# usage: tools/seed_import.sh <worktree> <seed-id> <property>
# Saves the worktree's uncommitted change + demo under /verif/seeded/<seed-id>/ after confirming that the demo fails with
# the change and passes without it.  (No git stash: the stash is shared by all worktrees of a repository.)
W=$1; ID=$2; P=$3
S=/verif/seeded/$ID; mkdir -p $S
git -C $W diff -- pydcop > $S/patch.diff
cp $W/demo_seed.py $S/demo_seed.py
echo "files changed: $(grep '^+++ b/' $S/patch.diff | sed 's/^+++ b\///' | tr '\n' ' ')"
cd $W
PYTHONPATH=$W timeout 300 /venv/bin/python demo_seed.py > $S/demo_with.txt 2>&1; RC_WITH=$?
git checkout -q -- pydcop
PYTHONPATH=$W timeout 300 /venv/bin/python demo_seed.py > $S/demo_without.txt 2>&1; RC_WITHOUT=$?
git apply $S/patch.diff
echo "demo with change: exit $RC_WITH ; without: exit $RC_WITHOUT"
echo "$RC_WITH $RC_WITHOUT" > $S/demo_rc.txt
