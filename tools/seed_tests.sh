#!/bin/sh
# usage: tools/seed_tests.sh <seed-id>
# Applies the seeded change to a scratch worktree and runs the baseline tests of every test file that mentions one of the
# changed modules (plus tests/api); every test of those files that is in the baseline's stable_pass list must still pass.
# Writes seeded/<id>/tests_with_change.txt.  (tools/baseline.py <worktree> alone runs the whole suite: ~10 min on an idle machine.)
ID=$1
P=/verif/seeded/$ID/patch.diff; [ -f /verif/seeded/$ID/patch_rebased.diff ] && P=/verif/seeded/$ID/patch_rebased.diff
R=/tmp/seedtest_$ID; git -C /repo worktree remove --force $R 2>/dev/null; git -C /repo worktree add -q --detach $R HEAD || exit 3
git -C $R apply $P || { git -C /repo worktree remove --force $R; exit 3; }
MODS=$(grep '^+++ b/' $P | sed 's/^+++ b\///; s/\.py$//; s/\/__init__$//' | awk -F/ '{print $NF}')
FILES=""
for m in $MODS; do FILES="$FILES $(cd $R && grep -rlE "(import|from) .*\b$m\b|\.$m\b" tests --include='test_*.py' | tr '\n' ' ')"; done
FILES=$(echo $FILES | tr ' ' '\n' | sort -u | grep -v "test_infra_communication\|test_api_solve" | tr '\n' ' ')
timeout 1500 /verif/tools/baseline.py $R $FILES > /verif/seeded/$ID/tests_with_change.txt 2>&1; RC=$?
echo "files: $FILES" >> /verif/seeded/$ID/tests_with_change.txt
echo "$ID rc=$RC $(grep '^passed' /verif/seeded/$ID/tests_with_change.txt)"
git -C /repo worktree remove --force $R
