#!/bin/sh
# usage: tools/neutral_import.sh <worktree> <id>   -- keeps a behaviour-preserving change as /verif/neutral/<id>/patch.diff
W=$1; ID=$2; D=/verif/neutral/$ID; mkdir -p $D
git -C $W diff -- pydcop > $D/patch.diff
echo "files changed: $(git -C $W diff --stat -- pydcop | tail -1)"
