"""Job runner: explores every job of a property's harness to exhaustion on all cores,
replays counterexamples on the unshimmed code, writes evidence, prints the verdict.

Exit codes: 0 = held on everything explored (complete), 1 = reproduced violation,
2 = inconclusive / harness error (never a pass).
"""
import hashlib
import importlib
import json
import multiprocessing as mp
import os
import re
import subprocess
import sys
import time
import traceback

VERIF = os.path.dirname(os.path.dirname(os.path.abspath(__file__)))
REPO = os.environ.get("VERIF_REPO", "/repo")


def load_harness(pid):
    for fn in sorted(os.listdir(os.path.join(VERIF, "harness"))):
        if fn.startswith(pid + "_") and fn.endswith(".py"):
            return importlib.import_module("harness." + fn[:-3])
    raise SystemExit("no harness for %s" % pid)


def load_known(pid):
    path = os.path.join(VERIF, "known_findings.json")
    if not os.path.exists(path):
        return []
    data = json.load(open(path))
    return [e for e in data.get("findings", []) if e.get("property") == pid]


def open_known_ids(pid):
    return [e["id"] for e in load_known(pid) if e.get("status") == "open"]


# ---------------------------------------------------------------------------
# worker side
# ---------------------------------------------------------------------------
_W = {}


def _profile_functions(fn, eng, prefix):
    """Run one path under a profiler to record which repo functions are executed."""
    seen = set()
    root = os.path.join(REPO, "pydcop")

    def prof(frame, event, arg):
        if event == "call":
            co = frame.f_code
            if co.co_filename.startswith(root):
                seen.add(co.co_filename[len(REPO) + 1:-3].replace("/", ".") + ":" + co.co_name)
    sys.setprofile(prof)
    try:
        sib = eng.run_path(fn, prefix)
    finally:
        sys.setprofile(None)
    return sib, seen


STOP_FLAGS = None      # shared byte array (one flag per job), inherited by the forked workers


def worker_task(task):
    pid, job_idx, params, prefixes, budget_s, known_ids, want_profile = task
    from symex.engine import SymEngine, Inconclusive, Stats
    from symex.symnum import SymNum
    t0 = time.perf_counter()
    if STOP_FLAGS is not None and STOP_FLAGS[job_idx]:
        # the job was stopped (bug-hunting budget used up, or enough counterexamples): queued subtrees are dropped
        return {"job": job_idx, "stats": Stats().as_dict(), "findings": [], "n_findings": 0, "known": [], "n_known": 0,
                "samples": [], "leftover": [], "functions": [], "smt": [], "wall": 0.0, "error": None, "dropped": True}
    try:
        h = load_harness(pid)
        eng = SymEngine()
        SymNum._default_engine = eng
        eng.known_ids = set(known_ids)
        eng.smt_dump_limit = 2 if want_profile else 0

        def fn(e):
            h.run(e, params)
        funcs = set()
        stack = [list(p) for p in prefixes]
        if want_profile and stack:
            p = stack.pop()
            sib, funcs = _profile_functions(fn, eng, p)
            stack.extend(sib)
        left = eng.explore(fn, stack, budget_s=budget_s)
        return {"job": job_idx, "stats": eng.stats.as_dict(), "findings": eng.findings[:20],
                "n_findings": len(eng.findings), "known": eng.known[:20], "n_known": len(eng.known),
                "samples": eng.samples, "leftover": left, "functions": sorted(funcs), "smt": eng.smt_dumps,
                "wall": time.perf_counter() - t0, "error": None}
    except Inconclusive as e:
        return {"job": job_idx, "error": "inconclusive: %s" % e, "leftover": [], "stats": {}}
    except BaseException as e:  # harness error
        return {"job": job_idx, "error": "harness error: %s\n%s" % (e, traceback.format_exc()),
                "leftover": [], "stats": {}}


# ---------------------------------------------------------------------------
# concrete replay (separate interpreter, no shims)
# ---------------------------------------------------------------------------
def replay_file(path):
    """Executed in a fresh interpreter: returns dict(reproduced, failures, outcome)."""
    from symex.engine import ConcreteEngine, ReplayDivergence
    rec = json.load(open(path))
    h = load_harness(rec["property"])
    eng = ConcreteEngine(rec["inputs"], rec["choices"])
    eng.known_ids = set(rec.get("known_ids", []))
    try:
        failed = eng.run(lambda e: h.run(e, rec["params"]))
    except ReplayDivergence as e:
        return {"reproduced": False, "diverged": str(e), "failures": [], "outcome": eng.notes.get("outcome")}
    return {"reproduced": bool(failed), "diverged": None, "failures": failed,
            "outcome": eng.notes.get("outcome")}


def replay_subprocess(path):
    env = dict(os.environ)
    env["PYTHONPATH"] = REPO + os.pathsep + VERIF
    env["VERIF_CONCRETE"] = "1"
    p = subprocess.run([sys.executable, "-m", "symex.runner", "--replay-json", path],
                       cwd=VERIF, env=env, stdout=subprocess.PIPE, stderr=subprocess.PIPE, text=True,
                       timeout=600)
    for line in p.stdout.splitlines()[::-1]:
        if line.startswith("REPLAY-RESULT "):
            return json.loads(line[len("REPLAY-RESULT "):])
    return {"reproduced": False, "diverged": "replay process failed: " + (p.stderr[-2000:] or p.stdout[-2000:]),
            "failures": [], "outcome": None}


def _norm(x):
    """Normal form of an outcome for comparison between the symbolic and the concrete run."""
    if isinstance(x, dict):
        if set(x) == {"num", "den"}:
            return round(x["num"] / x["den"], 9)
        return {str(k): _norm(v) for k, v in sorted(x.items(), key=lambda kv: str(kv[0]))}
    if isinstance(x, (list, tuple)):
        return [_norm(v) for v in x]
    if isinstance(x, bool) or x is None or isinstance(x, str):
        return x
    if isinstance(x, int):
        return x
    if isinstance(x, float):
        return int(x) if x == int(x) and abs(x) < 2 ** 62 else round(x, 9)
    return str(x)


def witness_batch(path):
    """Fresh interpreter: replay sampled paths concretely on the unshimmed code and compare the observable outcome."""
    from symex.engine import ConcreteEngine, ReplayDivergence
    batch = json.load(open(path))
    h = load_harness(batch["property"])
    out = []
    for case in batch["cases"]:
        eng = ConcreteEngine(case["inputs"], case["choices"])
        eng.known_ids = set(batch.get("known_ids", []))
        res = {"job": case["job"], "ok": True, "why": None}
        try:
            eng.run(lambda e: h.run(e, case["params"]))
            got = json.loads(json.dumps(eng.notes.get("outcome"), default=str))
            exp = case["outcome"]
            if _norm(got) != _norm(exp):
                res.update(ok=False, why="outcome differs: symbolic %s / concrete %s" % (json.dumps(_norm(exp))[:300],
                                                                                          json.dumps(_norm(got))[:300]))
        except ReplayDivergence as e:
            res.update(ok=False, why="diverged: %s" % e)
        except BaseException as e:
            res.update(ok=False, why="crashed: %s %s" % (type(e).__name__, e))
        out.append(res)
    return out


def validate_witnesses(pid, jobs, per_job, known_ids, max_cases=40):
    cases = []
    for j, pj in enumerate(per_job):
        for s in pj["samples"][:4]:
            if "notes" in s and s["notes"].get("outcome") is not None:
                cases.append({"job": jobs[j].get("name"), "params": jobs[j], "inputs": s["inputs_witness"],
                              "choices": s["choices"], "outcome": json.loads(json.dumps(s["notes"]["outcome"], default=str))})
    cases = cases[:max_cases]
    if not cases:
        return 0, []
    os.makedirs(os.path.join(VERIF, "replays"), exist_ok=True)
    path = os.path.join(VERIF, "replays", "%s-witnesses.json" % pid)
    with open(path, "w") as f:
        json.dump({"property": pid, "known_ids": list(known_ids), "cases": cases}, f, default=str)
    env = dict(os.environ)
    env["PYTHONPATH"] = REPO + os.pathsep + VERIF
    p = subprocess.run([sys.executable, "-m", "symex.runner", "--witness-batch", path], cwd=VERIF, env=env,
                       stdout=subprocess.PIPE, stderr=subprocess.PIPE, text=True, timeout=900)
    for line in p.stdout.splitlines()[::-1]:
        if line.startswith("WITNESS-RESULT "):
            res = json.loads(line[len("WITNESS-RESULT "):])
            return len(res), [r for r in res if not r["ok"]]
    return len(cases), [{"job": "*", "ok": False, "why": "witness process failed: " + (p.stderr[-800:] or p.stdout[-800:])}]


def solver_diff(queries):
    """Re-decide dumped final queries (SMT-LIB2) with the system z3 4.8.12 and cvc5 binaries; report disagreements."""
    import shutil
    import tempfile
    solvers = []
    if shutil.which("/usr/bin/z3"):
        solvers.append(("z3-4.8.12", ["/usr/bin/z3", "-T:20"]))
    if shutil.which("cvc5"):
        solvers.append(("cvc5", ["cvc5", "--tlimit=20000"]))
    bad, n = [], 0
    for text, expected in queries:
        with tempfile.NamedTemporaryFile("w", suffix=".smt2", delete=False) as f:
            f.write(text)
            path = f.name
        try:
            for name, cmd in solvers:
                try:
                    p = subprocess.run(cmd + [path], stdout=subprocess.PIPE, stderr=subprocess.STDOUT, text=True, timeout=40)
                    out = p.stdout.strip().splitlines()
                except subprocess.TimeoutExpired:
                    continue
                if any("(error" in l for l in out):
                    continue          # inconclusive for this solver (e.g. unsupported construct): not a disagreement
                verdict = next((l.strip() for l in out if l.strip() in ("sat", "unsat", "unknown")), "unknown")
                if verdict in ("sat", "unsat"):
                    n += 1
                    if verdict != expected:
                        bad.append((name, expected, verdict))
        finally:
            os.unlink(path)
    return n, bad, [s[0] for s in solvers]


def write_replay(pid, params, finding, known_ids, kind="violation"):
    os.makedirs(os.path.join(VERIF, "replays"), exist_ok=True)
    rec = {"property": pid, "params": params, "inputs": finding["inputs"], "choices": finding["choices"],
           "what": finding["what"], "detail": finding.get("detail"), "kind": kind,
           "known_ids": list(known_ids), "notes": finding.get("notes")}
    blob = json.dumps(rec, sort_keys=True, default=str)
    hh = hashlib.sha1(blob.encode()).hexdigest()[:10]
    path = os.path.join(VERIF, "replays", "%s-%s.json" % (pid, hh))
    with open(path, "w") as f:
        f.write(json.dumps(rec, indent=1, default=str))
    return path


# ---------------------------------------------------------------------------
# master side
# ---------------------------------------------------------------------------
def run_check(pid, tier, seed=0, workers=None, only_job=None):
    t_start = time.perf_counter()
    h = load_harness(pid)
    jobs = h.jobs(tier)
    if only_job is not None:
        jobs = [j for j in jobs if only_job in j.get("name", "")]
    if tier == "thorough":
        # Jobs that only exist in the thorough tier are explored under a cpu budget each (bug hunting beyond the budget): a job
        # whose frontier empties within its budget is part of the claim, one that is stopped is reported as such and claims
        # nothing.  The quick tier's jobs (same parameters) always have to be exhausted.  A job can opt out ("exhaustive": True)
        # or set its own budget ("hunt_cpu_s").
        quick_jobs = h.jobs("quick")
        extra = [j for j in jobs if j not in quick_jobs and not j.get("exhaustive") and not j.get("hunt_cpu_s")]
        if extra:
            total = float(os.environ.get("VERIF_HUNT_TOTAL_S", "30000"))
            per_job = int(max(120, min(1200, total / len(extra))))
            for j in extra:
                j["hunt_cpu_s"] = per_job
    known_ids = open_known_ids(pid)
    known_meta = {e["id"]: e for e in load_known(pid)}
    workers = workers or int(os.environ.get("VERIF_WORKERS", "0")) or min(16, os.cpu_count() or 4)
    cap_s = float(os.environ.get("VERIF_CAP_S", getattr(h, "CAP_S", {}).get(tier, 1500 if tier == "quick" else 7200)))
    per_job = [{"stats": None, "findings": [], "n_findings": 0, "known": [], "n_known": 0, "samples": [],
                "functions": set(), "wall": 0.0, "tasks": 0} for _ in jobs]
    from symex.engine import Stats
    for pj in per_job:
        pj["stats"] = Stats()
    errors = []
    ctx = mp.get_context("fork")
    global STOP_FLAGS
    STOP_FLAGS = ctx.RawArray("b", max(1, len(jobs)))
    pending = [0]
    results = []
    order = list(range(len(jobs)))
    if seed:
        import random as _r
        _r.Random(seed).shuffle(order)

    with ctx.Pool(workers, maxtasksperchild=50) as pool:
        def submit(job_idx, prefixes, budget, profile=False):
            pending[0] += 1
            per_job[job_idx]["outstanding"] = per_job[job_idx].get("outstanding", 0) + 1
            task = (pid, job_idx, jobs[job_idx], prefixes, budget, known_ids, profile)
            results.append(pool.apply_async(worker_task, (task,)))
        # jobs carrying "hunt_cpu_s" are bug-hunting jobs: explored (after the exhaustive jobs are done) until their
        # cpu budget is used up; whatever is left of their frontier is dropped and they are not part of the verdict
        deferred = [j for j in order if jobs[j].get("hunt_cpu_s")]
        for j in order:
            if j not in deferred:
                submit(j, [[]], 1.5, True)
        capped = False
        stop_on_violation = False
        while results or deferred:
            if not results:
                for j in deferred:
                    submit(j, [[]], 1.5, True)
                deferred = []
            if time.perf_counter() - t_start > cap_s:
                capped = True
                break
            ready = [r for r in results if r.ready()]
            if not ready:
                time.sleep(0.02)
                continue
            for r in ready:
                results.remove(r)
                res = r.get()
                j = res["job"]
                per_job[j]["outstanding"] -= 1
                if res.get("error"):
                    errors.append((jobs[j].get("name"), res["error"]))
                    continue
                pj = per_job[j]
                pj["stats"].add(res["stats"])
                pj["findings"].extend(res["findings"])
                pj["n_findings"] += res["n_findings"]
                pj["known"].extend(res["known"])
                pj["n_known"] += res["n_known"]
                if len(pj["samples"]) < 4:
                    pj["samples"].extend(res["samples"][:2])
                pj["functions"].update(res["functions"])
                pj.setdefault("smt", []).extend(res.get("smt", []))
                pj["wall"] += res["wall"]
                pj["tasks"] += 1
                left = res["leftover"]
                if pj["n_findings"] >= 5:
                    # enough counterexamples for this job: do not explore its remaining subtrees
                    pj["truncated_after_violation"] = True
                    STOP_FLAGS[j] = 1
                    left = []
                if res.get("dropped"):
                    pj["hunt_stopped"] = pj.get("hunt_stopped") or bool(jobs[j].get("hunt_cpu_s"))
                if left and jobs[j].get("hunt_cpu_s") and pj["wall"] >= jobs[j]["hunt_cpu_s"]:
                    pj["hunt_stopped"] = True
                    STOP_FLAGS[j] = 1
                    left = []
                if left:
                    n_chunks = min(len(left), max(1, 2 * workers))
                    chunks = [left[i::n_chunks] for i in range(n_chunks)]
                    budget = min(30.0, 6.0 + pj["tasks"] * 0.5)
                    for ch in chunks:
                        if ch:
                            submit(j, ch, budget)
        if capped:
            pool.terminate()

    # ----- verdict ------------------------------------------------------------------------
    total = Stats()
    for pj in per_job:
        total.add(pj["stats"])
    violations = []
    known_lines = []
    nonrepro = []
    faults = []
    for j, pj in enumerate(per_job):
        seen_what = set()
        for f in pj["findings"]:
            if _harness_fault(f):
                # the harness itself could not attach to this tree (e.g. a private name it reads was renamed): that says
                # nothing about the property -- inconclusive, never a violation and never a pass
                faults.append((jobs[j].get("name"), f))
                continue
            key = f["what"].split(":")[0]
            if key in seen_what and len(violations) >= 1:
                continue
            path = write_replay(pid, jobs[j], f, known_ids)
            rr = replay_subprocess(path)
            if rr["reproduced"] and not all(x.get("regions") for x in rr["failures"]):
                violations.append((path, f, rr, jobs[j].get("name")))
                seen_what.add(key)
                if len(violations) >= 3:
                    break
            else:
                nonrepro.append((path, f, rr, jobs[j].get("name")))
        if len(violations) >= 3:
            break
    known_reproduced = {}
    for j, pj in enumerate(per_job):
        for k in pj["known"]:
            fid = k["finding_id"]
            if fid in known_reproduced:
                continue
            path = write_replay(pid, jobs[j], k, known_ids, kind="known")
            rr = replay_subprocess(path)
            if rr["reproduced"]:
                known_reproduced[fid] = (path, k, jobs[j].get("name"))
    for fid, (path, k, jn) in sorted(known_reproduced.items()):
        meta = known_meta.get(fid, {})
        known_lines.append("KNOWN-FINDING: property=%s %s [%s] (job %s; e.g. %s)"
                           % (pid, meta.get("what", k["what"]), fid, jn, _short(k["inputs"])))

    n_wit, bad_wit = (0, [])
    if not violations and not os.environ.get("VERIF_NO_WITNESS"):
        n_wit, bad_wit = validate_witnesses(pid, jobs, per_job, known_ids)
    n_diff, bad_diff, diff_solvers = (0, [], [])
    if tier == "thorough" and not violations and not os.environ.get("VERIF_NO_SOLVER_DIFF"):
        n_diff, bad_diff, diff_solvers = solver_diff([q for pj in per_job for q in pj.get("smt", [])][:60])
    vacuous = [jobs[j].get("name") for j, pj in enumerate(per_job)
               if pj["stats"].asserts_reached == 0 and not jobs[j].get("hunt_cpu_s") and not any(jobs[j].get("name") == e[0] for e in errors)]
    complete = not capped and not errors
    status = 0
    msgs = []
    if violations:
        status = 1
    elif nonrepro:
        status = 2
        msgs.append("counterexample(s) did not reproduce concretely: %s"
                    % "; ".join("%s [%s] %s" % (n, f["what"], rr.get("diverged") or "no failure")
                                for _, f, rr, n in nonrepro[:3]))
    if faults and status == 0:
        status = 2
        msgs.append("the harness does not fit this tree (exception raised by harness code while reading / binding a name of the "
                    "code under analysis): %s" % "; ".join("%s [%s]" % (n, f["what"][:200]) for n, f in faults[:3]))
    if errors and status == 0:
        status = 2
    if capped and status == 0:
        status = 2
        msgs.append("wall-clock cap of %.0fs hit before the frontier emptied" % cap_s)
    if bad_diff and status == 0:
        status = 2
        msgs.append("solver cross-check disagrees on %d of %d final queries: %s" % (len(bad_diff), n_diff, bad_diff[:3]))
    if bad_wit and status == 0:
        status = 2
        msgs.append("encoding validation failed: %d of %d sampled paths behave differently on the unshimmed code: %s"
                    % (len(bad_wit), n_wit, "; ".join("%s: %s" % (b["job"], b["why"]) for b in bad_wit[:3])))
    if vacuous and status == 0:
        status = 2
        msgs.append("vacuous job(s), assertion never reached: %s" % vacuous)
    for n, e in errors[:5]:
        msgs.append("job %s: %s" % (n, e[:1500]))

    wall = time.perf_counter() - t_start
    evidence = build_evidence(pid, tier, seed, h, jobs, per_job, total, wall, complete, violations,
                              known_reproduced, nonrepro, errors, capped, workers)
    evidence["coverage"]["final_queries_cross_checked_with_other_solvers"] = n_diff
    evidence["coverage"]["cross_check_solvers"] = diff_solvers
    evidence["coverage"]["witness_paths_replayed_on_unshimmed_code"] = n_wit
    evidence["coverage"]["witness_paths_diverging"] = len(bad_wit)
    evdir = os.environ.get("VERIF_EVIDENCE_DIR") or os.path.join(VERIF, "evidence")
    os.makedirs(evdir, exist_ok=True)
    with open(os.path.join(evdir, "%s.json" % pid), "w") as f:
        json.dump(evidence, f, indent=1, default=str)

    print("%s tier=%s jobs=%d paths=%d cut=%d forks=%d queries=%d solver_s=%.1f asserts=%d proved=%d wall=%.1fs complete=%s"
          % (pid, tier, len(jobs), total.paths, total.cut_paths, total.forks, total.queries, total.solver_s,
             total.asserts_reached, total.proved, wall, complete))
    if os.environ.get("VERIF_JOBSTATS") or capped:
        for j, pj in enumerate(per_job):
            st = pj["stats"]
            print("  job %-40s paths=%-8d cut=%-8d refuted=%-4d exc=%-3d cpu=%.0fs %s"
                  % (jobs[j].get("name"), st.paths, st.cut_paths, st.refuted, st.exceptions, pj["wall"],
                     ("(hunt: stopped at budget)" if pj.get("hunt_stopped") else "(hunt: exhausted)" if jobs[j].get("hunt_cpu_s")
                      else "") if not capped else "(frontier not emptied)" if pj.get("outstanding") else "(exhausted)"))
    for line in known_lines:
        print(line)
    for m in msgs:
        print("NOTE:", m)
    for path, f, rr, jn in violations:
        print("counterexample (job %s): %s inputs=%s" % (jn, f["what"], _short(f["inputs"])))
        print("VIOLATION property=%s replay=%s" % (pid, path))
    if status == 2:
        print("INCONCLUSIVE property=%s" % pid)
    return status


_ATTACH_ERRORS = re.compile(r"\b(AttributeError|ImportError|ModuleNotFoundError|NameError)\b")


def _harness_fault(f):
    """True when the failure is an AttributeError / ImportError / NameError whose innermost frame is in /verif itself."""
    what, detail = str(f.get("what", "")), str(f.get("detail") or "")
    if not _ATTACH_ERRORS.search(what):
        return False
    frames = re.findall(r'File "([^"]+)", line', detail)
    return bool(frames) and os.path.abspath(frames[-1]).startswith(VERIF + os.sep)


def _short(d, n=300):
    s = json.dumps(d, default=str)
    return s if len(s) <= n else s[:n] + "..."


def build_evidence(pid, tier, seed, h, jobs, per_job, total, wall, complete, violations, known_reproduced,
                   nonrepro, errors, capped, workers):
    funcs = set()
    for pj in per_job:
        funcs.update(pj["functions"])
    samples = []
    for j, pj in enumerate(per_job):
        for s in pj["samples"][:1]:
            s2 = dict(s)
            s2["choices"] = s2.get("choices", [])[:30]
            samples.append({"job": jobs[j].get("name"), "params": jobs[j], **s2})
    nontrivial = sum(1 for pj in per_job for _ in [0]) and total.forks + sum(
        1 for pj in per_job if pj["stats"].paths > 0)
    cov = {
        "explanation": (
            "Bounded symbolic execution of the real code (Engine S: z3 %s via its Python API; symbolic numbers are "
            "carried through the repository's functions, every branch on a symbolic condition is decided by the "
            "solver and forks, discrete nondeterminism is a bounded choice explored exhaustively). Each path ends "
            "with one non-forking query `path condition AND NOT property`; unsat on every path of every job with an "
            "empty frontier is the verdict 'holds within the bounds'. The code executed is %s's current working "
            "tree (imported fresh in this run). %s%s" % (_z3v(), REPO, getattr(h, "EXPLANATION", ""),
                                                           " Jobs listed under bug_hunting_jobs are deeper instances explored only up to a "
                                                           "cpu budget: a counterexample found there is reported like any other, but when "
                                                           "their frontier is not emptied they add nothing to the claim ('exhaustive' refers "
                                                           "to the other jobs)." if any(j.get("hunt_cpu_s") for j in jobs) else "")),
        "engine": "Engine S (own path-exhaustive symbolic executor on z3)",
        "functions_encoded": sorted(funcs)[:400],
        "bounds": getattr(h, "BOUNDS", {}).get(tier, getattr(h, "BOUNDS", "")),
        "outside_bounds": getattr(h, "OUTSIDE", ""),
        "jobs": [{"name": jobs[j].get("name"), **pj["stats"].as_dict(), "tasks": pj["tasks"],
                  "cpu_s": round(pj["wall"], 2),
                  "mode": ("exhaustive" if not jobs[j].get("hunt_cpu_s") else
                           "bug hunting only (budget %s cpu-s): %s" % (
                               jobs[j]["hunt_cpu_s"], "stopped with part of the frontier unexplored -- no claim"
                               if pj.get("hunt_stopped") else "frontier emptied within the budget"))}
                 for j, pj in enumerate(per_job)],
        "bug_hunting_jobs": [jobs[j].get("name") for j in range(len(jobs)) if jobs[j].get("hunt_cpu_s")],
        "evaluations": total.paths,
        "distinct_nontrivial": total.nontrivial,
        "rule": ("one evaluation = one execution path of the harness, identified by its decision prefix (distinct prefix => "
                 "distinct path condition / schedule / history, so paths are distinct by construction); a path is counted "
                 "non-trivial when it took at least one decision (a solver-decided branch on a symbolic condition or a bounded "
                 "choice) -- measured per path; 'forks' separately counts the branches where both outcomes were feasible"),
        "forks_on_symbolic_conditions": total.forks,
        "samples": samples[:6] or [{"note": "no completed path"}],
        "queries_discharged": total.queries,
        "final_queries": total.asserts_reached,
        "final_queries_unsat": total.proved,
        "final_queries_sat": total.refuted,
        "known_finding_hits": total.known_hits,
        "solver_time_s": round(total.solver_s, 2),
        "paths_cut_by_sleep_sets_or_assumptions": total.cut_paths,
        "exhaustive": bool(complete),
        "workers": workers,
        "capped": capped,
        "errors": [e[1][:500] for e in errors[:5]],
        "counterexamples_reproduced": len(violations),
        "counterexamples_not_reproduced": len(nonrepro),
        "known_findings_reproduced": sorted(known_reproduced),
    }
    return {
        "property_id": pid, "tier": tier, "seed": int(seed), "level": "other",
        "coverage": cov,
        "assumptions": list(getattr(h, "ASSUMPTIONS", [])),
        "wall_s": round(wall, 2),
        "violations": len(violations),
    }


def _z3v():
    import z3
    return z3.get_version_string()


def main(argv):
    if len(argv) >= 2 and argv[0] == "--witness-batch":
        print("WITNESS-RESULT " + json.dumps(witness_batch(argv[1]), default=str))
        return 0
    if len(argv) >= 2 and argv[0] == "--replay-json":
        try:
            res = replay_file(argv[1])
        except BaseException as e:
            res = {"reproduced": False, "diverged": "replay crashed: %s %s" % (type(e).__name__, e),
                   "failures": [], "outcome": None, "trace": traceback.format_exc()[-1500:]}
        print("REPLAY-RESULT " + json.dumps(res, default=str))
        return 0
    import argparse
    ap = argparse.ArgumentParser()
    ap.add_argument("property")
    ap.add_argument("--tier", default=os.environ.get("VERIF_TIER", "quick"))
    ap.add_argument("--replay")
    ap.add_argument("--job")
    ap.add_argument("--workers", type=int)
    a = ap.parse_args(argv)
    if a.replay:
        rr = replay_subprocess(a.replay)
        print(json.dumps(rr, indent=1, default=str))
        if rr["reproduced"]:
            print("VIOLATION property=%s replay=%s" % (a.property, a.replay))
            return 1
        return 0 if not rr.get("diverged") else 2
    seed = int(os.environ.get("VERIF_SEED", "0") or 0)
    return run_check(a.property, a.tier, seed, a.workers, a.job)


if __name__ == "__main__":
    sys.exit(main(sys.argv[1:]))
