"""Stubs at C / library / randomness boundaries.  All are module-global rebindings applied
from the harness process; nothing in /repo is edited.  Every stub used is part of the claim
of the check that uses it (listed in evidence `assumptions`).
"""
import builtins
import logging
import sys
import types

import numpy as _np

from .symnum import SymNum, is_sym

_installed = []


def quiet_logging():
    logging.disable(logging.CRITICAL)


# ---------------------------------------------------------------------------
# numpy facade for pydcop.dcop.relations: object arrays so that SymNum entries survive
# ---------------------------------------------------------------------------
class _NpFacade(types.ModuleType):
    def __init__(self):
        super().__init__("np_facade")
        self.__dict__["_np"] = _np

    def __getattr__(self, name):
        return getattr(_np, name)

    @staticmethod
    def zeros(shape=None, dtype=None, **kw):
        a = _np.empty(shape, dtype=object)
        a.fill(0)
        return a

    @staticmethod
    def array(obj, dtype=None, **kw):
        if isinstance(obj, _np.ndarray) and obj.dtype == object:
            return obj.copy()
        return _np.array(obj, dtype=object)

    @staticmethod
    def copy(a):
        return _np.array(a, dtype=object, copy=True)

    @staticmethod
    def isclose(a, b, rtol=1e-05, atol=1e-08, equal_nan=False):
        # numpy's definition for scalars: |a - b| <= atol + rtol * |b|; infinities are close only to themselves
        if not (is_sym(a) or is_sym(b)):
            return _np.isclose(a, b, rtol=rtol, atol=atol, equal_nan=equal_nan)
        for x in (a, b):
            if isinstance(x, float) and x in (float("inf"), float("-inf")):
                return False
        return abs(a - b) <= atol + rtol * abs(b)

    @staticmethod
    def all(a, *args, **kw):
        # element-wise comparisons of object arrays call SymNum.__eq__ (forks) -> bools
        return bool(_np.all(_np.asarray(a, dtype=object).astype(bool)))


NP_FACADE = _NpFacade()


def install_numpy_facade():
    import pydcop.dcop.relations as rel
    if rel.np is not NP_FACADE:
        _installed.append((rel, "np", rel.np))
        rel.np = NP_FACADE


def _sym_float(x=0.0):
    if is_sym(x):
        return x
    return builtins.float(x)


def _sym_int(x=0, *a):
    if is_sym(x):
        return x
    return builtins.int(x, *a)


def install_float_identity(*modules):
    """`float(cost)` / `int(cost)` on a symbolic number is the identity (exact below 2**53)."""
    for m in modules:
        _installed.append((m, "float", m.__dict__.get("float", _MISSING)))
        m.float = _sym_float


def install_float_round53(*modules):
    """`float(x)` on a symbolic integer is its float64 image for |x| <= 2**54 (nearest even above 2**53); other values as float()."""
    from .npmodel import round53
    from .symnum import is_sym

    def _f(x=0):
        if is_sym(x):
            return round53(x) if x.is_int() else x
        return float(x)
    for m in modules:
        _installed.append((m, "float", m.__dict__.get("float", _MISSING)))
        m.float = _f


_MISSING = object()


# ---------------------------------------------------------------------------
# randomness: "random" means an arbitrary value of the documented range
# ---------------------------------------------------------------------------
class SymRandom(types.ModuleType):
    """Stand-in for the `random` module (and numpy.random) driven by the engine."""

    def __init__(self, eng_getter, name="symrandom"):
        super().__init__(name)
        self._eng = eng_getter
        self._n = 0

    def _fresh(self, what):
        self._n += 1
        return "rnd_%s_%d" % (what, self._n)

    def reset(self):
        self._n = 0
        self._nchoice = 0
        self.free_choices = None

    free_choices = None       # when set: only the first N calls of choice() are explored, later ones return the first element

    def choice(self, seq):
        seq = list(seq)
        if not seq:
            raise IndexError("Cannot choose from an empty sequence")
        if self.free_choices is not None:
            self._nchoice = getattr(self, "_nchoice", 0) + 1
            if self._nchoice > self.free_choices:
                return seq[0]
        return seq[self._eng().choose(len(seq), "random.choice")]

    def random(self):
        e = self._eng()
        v = e.sym_real(self._fresh("random"), 0, None)
        e.assume(_lt(v, 1))
        return v

    def uniform(self, a, b):
        e = self._eng()
        v = e.sym_real(self._fresh("uniform"), None, None)
        from .engine import F
        e.assume(F.and_(F.le(a, v), F.le(v, b)))
        return v

    def randint(self, a, b):
        e = self._eng()
        return e.sym_int(self._fresh("randint"), a, b)

    fixed_shuffle = False

    def shuffle(self, lst):
        if self.fixed_shuffle:
            return
        e = self._eng()
        n = len(lst)
        items = list(lst)
        out = []
        while items:
            out.append(items.pop(e.choose(len(items), "random.shuffle")))
        lst[:] = out

    def sample(self, population, k):
        e = self._eng()
        items = list(population)
        if k > len(items) or k < 0:
            raise ValueError("Sample larger than population or is negative")
        out = []
        for _ in range(k):
            out.append(items.pop(e.choose(len(items), "random.sample")))
        return out

    def seed(self, *a, **k):
        pass


def _lt(a, b):
    from .engine import F
    return F.lt(a, b)


class ScriptedRandom(types.ModuleType):
    """Concrete replay: same call points, values come from the witness / choice script."""

    def __init__(self, eng_getter, name="scriptedrandom"):
        super().__init__(name)
        self._eng = eng_getter
        self._n = 0

    def _fresh(self, what):
        self._n += 1
        return "rnd_%s_%d" % (what, self._n)

    def reset(self):
        self._n = 0
        self._nchoice = 0
        self.free_choices = None

    free_choices = None       # when set: only the first N calls of choice() are explored, later ones return the first element

    def choice(self, seq):
        seq = list(seq)
        if not seq:
            raise IndexError("Cannot choose from an empty sequence")
        if self.free_choices is not None:
            self._nchoice = getattr(self, "_nchoice", 0) + 1
            if self._nchoice > self.free_choices:
                return seq[0]
        return seq[self._eng().choose(len(seq), "random.choice")]

    def random(self):
        return float(self._eng().sym_real(self._fresh("random")))

    def uniform(self, a, b):
        return float(self._eng().sym_real(self._fresh("uniform")))

    def randint(self, a, b):
        return int(self._eng().sym_int(self._fresh("randint")))

    fixed_shuffle = False

    def shuffle(self, lst):
        if self.fixed_shuffle:
            return
        e = self._eng()
        items = list(lst)
        out = []
        while items:
            out.append(items.pop(e.choose(len(items), "random.shuffle")))
        lst[:] = out

    def sample(self, population, k):
        e = self._eng()
        items = list(population)
        if k > len(items) or k < 0:
            raise ValueError("Sample larger than population or is negative")
        out = []
        for _ in range(k):
            out.append(items.pop(e.choose(len(items), "random.sample")))
        return out

    def seed(self, *a, **k):
        pass


def install_random(rnd, modules):
    """Rebind `random` (module attr) and from-imported `choice/shuffle/sample/randint/random`."""
    import random as _real
    for m in modules:
        d = m.__dict__
        if isinstance(d.get("random"), types.ModuleType) or "random" in d and d["random"] is not None and hasattr(d["random"], "choice") and not callable(d["random"]):
            _installed.append((m, "random", d["random"]))
            m.random = rnd
        for fname in ("choice", "shuffle", "sample", "randint"):
            if fname in d and getattr(d[fname], "__self__", None) is not None:
                _installed.append((m, fname, d[fname]))
                setattr(m, fname, getattr(rnd, fname))
        if "random" in d and callable(d["random"]) and not isinstance(d["random"], types.ModuleType):
            # `from random import random`
            _installed.append((m, "random", d["random"]))
            m.random = rnd.random


def uninstall_all():
    while _installed:
        m, name, old = _installed.pop()
        if old is _MISSING:
            try:
                delattr(m, name)
            except AttributeError:
                pass
        else:
            setattr(m, name, old)


# ---------------------------------------------------------------------------
# math module: C functions that would call float() on a symbolic number
# ---------------------------------------------------------------------------
_math_done = []


def install_math_shims():
    """Wrap the math functions most likely to meet a cost so that they accept SymNum (others: loud TypeError)."""
    import math
    if _math_done:
        return
    _math_done.append(True)
    orig = {n: getattr(math, n) for n in ("isclose", "fabs", "isinf", "isnan", "isfinite", "floor", "ceil", "fsum")}

    def _any_sym(*xs):
        return any(is_sym(x) for x in xs)

    def isclose(a, b, *, rel_tol=1e-09, abs_tol=0.0):
        if not _any_sym(a, b):
            return orig["isclose"](a, b, rel_tol=rel_tol, abs_tol=abs_tol)
        inf = float("inf")
        for x, y in ((a, b), (b, a)):
            if isinstance(x, float) and x in (inf, -inf):
                return False
        diff = abs(a - b)
        bound = max(rel_tol * max(abs(a), abs(b)), abs_tol)
        return diff <= bound

    def fabs(x):
        return abs(x) if is_sym(x) else orig["fabs"](x)

    def isinf(x):
        return False if is_sym(x) else orig["isinf"](x)

    def isnan(x):
        return False if is_sym(x) else orig["isnan"](x)

    def isfinite(x):
        return True if is_sym(x) else orig["isfinite"](x)

    def floor(x):
        if is_sym(x):
            if x.is_int():
                return x
            raise TypeError("floor() of a symbolic real")
        return orig["floor"](x)

    def ceil(x):
        if is_sym(x):
            if x.is_int():
                return x
            raise TypeError("ceil() of a symbolic real")
        return orig["ceil"](x)

    def fsum(xs):
        xs = list(xs)
        if any(is_sym(x) for x in xs):
            tot = 0
            for x in xs:
                tot = tot + x
            return tot
        return orig["fsum"](xs)

    for n, f in (("isclose", isclose), ("fabs", fabs), ("isinf", isinf), ("isnan", isnan), ("isfinite", isfinite),
                 ("floor", floor), ("ceil", ceil), ("fsum", fsum)):
        setattr(math, n, f)
