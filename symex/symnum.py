"""SymNum: a Python number whose value is a z3 Int/Real term.

Comparisons return plain bools obtained from engine.branch (which may fork the
exploration), so the stock interpreter (min, max, sorted, `in`, heapq, ...)
works unchanged on symbolic numbers.  Deliberately NOT a subclass of int/float:
a symbolic value reaching a C boundary that wants a machine number fails loudly.
"""
import numbers
from fractions import Fraction
import z3

INF = float("inf")


def is_sym(x):
    return isinstance(x, SymNum)


def _is_inf(x):
    return isinstance(x, float) and (x == INF or x == -INF)


def _is_nan(x):
    return isinstance(x, float) and x != x


def to_term(x):
    """z3 term for a concrete finite number."""
    if isinstance(x, bool):
        return z3.IntVal(1 if x else 0)
    if isinstance(x, int):
        return z3.IntVal(x)
    if isinstance(x, float):
        fr = Fraction(x)
        if fr.denominator == 1:
            return z3.RealVal(fr.numerator)
        return z3.RealVal(fr)
    if isinstance(x, Fraction):
        return z3.RealVal(x)
    # numpy scalars
    try:
        import numpy as _np
        if isinstance(x, _np.integer):
            return z3.IntVal(int(x))
        if isinstance(x, _np.floating):
            return to_term(float(x))
    except ImportError:
        pass
    raise TypeError("cannot make a z3 term from %r" % type(x))


def term_of(x):
    if isinstance(x, SymNum):
        return x.t
    if isinstance(x, z3.ExprRef):
        return x
    return to_term(x)


def _conc(x):
    return isinstance(x, (int, float, Fraction)) or type(x).__module__ == "numpy"


class SymNum:
    __slots__ = ("eng", "t")
    _default_engine = None
    __array_priority__ = 1000  # numpy: let our reflected operators win

    def __init__(self, eng, t):
        self.eng = eng
        self.t = t

    @staticmethod
    def wrap(t):
        return make(SymNum._default_engine, t)

    # -- formatting: constant placeholders (eager f-strings in logging are harmless) --------
    def __repr__(self):
        return "<sym>"

    __str__ = __repr__

    def __format__(self, spec):
        return "<sym>"

    def __hash__(self):
        return 0

    # -- helpers -----------------------------------------------------------------------------
    def _mk(self, t):
        return make(self.eng, t)

    def is_int(self):
        return z3.is_int(self.t)

    # -- arithmetic --------------------------------------------------------------------------
    def __add__(self, o):
        if is_sym(o):
            return self._mk(self.t + o.t)
        if _is_inf(o) or _is_nan(o):
            return o
        if _conc(o):
            if o == 0 and not isinstance(o, float):
                return self
            return self._mk(self.t + to_term(o))
        return NotImplemented

    __radd__ = __add__

    def __sub__(self, o):
        if is_sym(o):
            return self._mk(self.t - o.t)
        if _is_inf(o) or _is_nan(o):
            return -o
        if _conc(o):
            return self._mk(self.t - to_term(o))
        return NotImplemented

    def __rsub__(self, o):
        if _is_inf(o) or _is_nan(o):
            return o
        if _conc(o):
            return self._mk(to_term(o) - self.t)
        return NotImplemented

    def __mul__(self, o):
        if is_sym(o):
            return self._mk(self.t * o.t)
        if _is_inf(o):
            # sign of self decides
            if self > 0:
                return o
            if self < 0:
                return -o
            return float("nan")
        if _is_nan(o):
            return o
        if _conc(o):
            return self._mk(self.t * to_term(o))
        return NotImplemented

    __rmul__ = __mul__

    def __truediv__(self, o):
        if is_sym(o):
            if o == 0:
                raise ZeroDivisionError("division by zero")
            return SymRatio(self, o)
        if _is_inf(o):
            return 0.0
        if _is_nan(o):
            return o
        if _conc(o):
            if o == 0:
                raise ZeroDivisionError("division by zero")
            a = z3.ToReal(self.t) if self.is_int() else self.t
            return self._mk(a / to_term(Fraction(o)))
        return NotImplemented

    def __rtruediv__(self, o):
        if _conc(o) and not _is_inf(o) and not _is_nan(o):
            if self == 0:
                raise ZeroDivisionError("division by zero")
            b = z3.ToReal(self.t) if self.is_int() else self.t
            return self._mk(to_term(Fraction(o)) / b)
        if _is_inf(o):
            if self > 0:
                return o
            if self < 0:
                return -o
            raise ZeroDivisionError("division by zero")
        return NotImplemented

    def __floordiv__(self, o):
        if isinstance(o, int) and not isinstance(o, bool) and self.is_int():
            if o == 0:
                raise ZeroDivisionError
            # python floor division == z3 div for positive divisor
            if o > 0:
                return self._mk(self.t / z3.IntVal(o))
            return self._mk((-self.t) / z3.IntVal(-o))
        if is_sym(o) and self.is_int() and o.is_int():
            if o == 0:
                raise ZeroDivisionError
            if o > 0:
                return self._mk(self.t / o.t)
            return self._mk((-self.t) / (-o.t))
        raise TypeError("SymNum floordiv unsupported for %r" % (o,))

    def __mod__(self, o):
        if isinstance(o, int) and not isinstance(o, bool) and self.is_int() and o > 0:
            return self._mk(self.t % z3.IntVal(o))
        raise TypeError("SymNum mod unsupported for %r" % (o,))

    def __neg__(self):
        return self._mk(-self.t)

    def __pos__(self):
        return self

    def __abs__(self):
        return self._mk(z3.If(self.t >= 0, self.t, -self.t))

    def __pow__(self, o):
        if isinstance(o, int) and 0 <= o <= 3:
            r = 1
            for _ in range(o):
                r = self * r
            return r
        raise TypeError("SymNum pow unsupported")

    # -- comparisons (fork) ------------------------------------------------------------------
    def _cmp(self, o, op, inf_pos, inf_neg):
        if is_sym(o):
            return self.eng.branch(op(self.t, o.t))
        if _is_nan(o):
            return False
        if _is_inf(o):
            return inf_pos if o > 0 else inf_neg
        if _conc(o):
            return self.eng.branch(op(self.t, to_term(o)))
        return NotImplemented

    def __lt__(self, o):
        return self._cmp(o, lambda a, b: a < b, True, False)

    def __le__(self, o):
        return self._cmp(o, lambda a, b: a <= b, True, False)

    def __gt__(self, o):
        return self._cmp(o, lambda a, b: a > b, False, True)

    def __ge__(self, o):
        return self._cmp(o, lambda a, b: a >= b, False, True)

    def __eq__(self, o):
        if is_sym(o):
            if o.t is self.t or z3.eq(self.t, o.t):
                return True
            return self.eng.branch(self.t == o.t)
        if o is None or isinstance(o, (str, tuple, list, dict, set, frozenset)):
            return False
        if _is_nan(o) or _is_inf(o):
            return False
        if _conc(o):
            return self.eng.branch(self.t == to_term(o))
        return NotImplemented

    def __ne__(self, o):
        r = self.__eq__(o)
        if r is NotImplemented:
            return r
        return not r

    def __bool__(self):
        return self.eng.branch(self.t != 0)

    def __int__(self):
        if self.is_int():
            return self
        raise TypeError("int() of a symbolic real")

    def __round__(self, n=None):
        if self.is_int():
            return self
        # nearest multiple of 10**-n (ties upwards; Python rounds the binary float half-to-even: the two only differ on
        # exact ties, and every counterexample is replayed on real floats)
        scale = 10 ** (n or 0)
        # terms built from decimals k / 10^d by +, -, constants and if-then-else: round in integer arithmetic
        for d in (7, 9, 12):
            if d > (n or 0):
                m = _scaled_int(self.t, 10 ** d)
                if m is not None:
                    step = 10 ** (d - (n or 0))
                    q = (m + step // 2) / step             # integer division by a positive constant: floor
                    return make(self.eng, q) if not n else make(self.eng, z3.ToReal(q) / scale)
        SymNum._round_counter = getattr(SymNum, "_round_counter", 0) + 1
        q = z3.Int("round_q_%d" % SymNum._round_counter)          # q <= x*scale + 1/2 < q + 1  (linear, no to_int)
        s = self.t * scale + z3.RealVal(1) / 2
        self.eng.assume(z3.And(z3.ToReal(q) <= s, s < z3.ToReal(q) + 1))
        if not n:
            return make(self.eng, q)
        return make(self.eng, z3.ToReal(q) / scale)

    def __float__(self):
        raise TypeError("float() of a symbolic number reached a C boundary (missing shim)")

    def __index__(self):
        raise TypeError("symbolic number used as an index")

    # -- pickling/copy: keep identity of the term --------------------------------------------
    def __deepcopy__(self, memo):
        return self

    def __copy__(self):
        return self


def _scaled_int(t, D):
    """An Int term m with t == m / D, for real terms made of to_real(int), rational constants, +, -, unary -, products with a
    constant, divisions by a constant and ite; None when t has another shape (or a constant is not a multiple of 1/D)."""
    from fractions import Fraction
    if z3.is_int(t):
        return t * D
    if z3.is_rational_value(t):
        f = Fraction(t.numerator_as_long(), t.denominator_as_long()) * D
        return z3.IntVal(int(f)) if f.denominator == 1 else None
    if not z3.is_app(t):
        return None
    k, ch = t.decl().kind(), t.children()
    if k == z3.Z3_OP_TO_REAL:
        return ch[0] * D
    if k in (z3.Z3_OP_ADD, z3.Z3_OP_SUB):
        parts = [_scaled_int(c, D) for c in ch]
        if any(x is None for x in parts):
            return None
        out = parts[0]
        for x in parts[1:]:
            out = out + x if k == z3.Z3_OP_ADD else out - x
        return out
    if k == z3.Z3_OP_UMINUS:
        x = _scaled_int(ch[0], D)
        return None if x is None else -x
    if k == z3.Z3_OP_ITE:
        a, b = _scaled_int(ch[1], D), _scaled_int(ch[2], D)
        return None if a is None or b is None else z3.If(ch[0], a, b)
    if k == z3.Z3_OP_DIV and z3.is_rational_value(ch[1]):
        f = Fraction(ch[1].numerator_as_long(), ch[1].denominator_as_long())
        if f != 0 and (Fraction(D) / f).denominator == 1:
            return _scaled_int(ch[0], int(Fraction(D) / f))
        return None
    if k == z3.Z3_OP_MUL and len(ch) == 2:
        for c, o in ((ch[0], ch[1]), (ch[1], ch[0])):
            if z3.is_rational_value(c):
                f = Fraction(c.numerator_as_long(), c.denominator_as_long())
                if f.denominator == 1:
                    x = _scaled_int(o, D)
                    return None if x is None else x * int(f)
                if (Fraction(D) * f).denominator == 1 and f.numerator == 1:
                    return _scaled_int(o, int(Fraction(D) * f))
        return None
    return None


class SymInt(SymNum):
    """A symbolic number of integer sort: additionally an instance of numbers.Integral."""
    __slots__ = ()


def make(eng, t):
    return SymInt(eng, t) if z3.is_int(t) else SymNum(eng, t)


class SymRatio:
    """num/den with a symbolic, non-zero denominator, kept lazy: comparisons with a constant or another number are
    decided by cross-multiplication after forking on the sign of the denominator, so queries stay linear."""
    __slots__ = ("num", "den")

    def __init__(self, num, den):
        self.num, self.den = num, den

    def __repr__(self):
        return "<symratio>"

    __str__ = __repr__

    def __format__(self, spec):
        return "<symratio>"

    def _cmp(self, o, op_pos, op_neg):
        if isinstance(o, SymRatio):
            raise TypeError("ratio/ratio comparison unsupported")
        if self.den > 0:
            return op_pos(self.num, self.den * o)
        return op_neg(self.num, self.den * o)

    def __lt__(self, o):
        return self._cmp(o, lambda a, b: a < b, lambda a, b: a > b)

    def __le__(self, o):
        return self._cmp(o, lambda a, b: a <= b, lambda a, b: a >= b)

    def __gt__(self, o):
        return self._cmp(o, lambda a, b: a > b, lambda a, b: a < b)

    def __ge__(self, o):
        return self._cmp(o, lambda a, b: a >= b, lambda a, b: a <= b)

    def __eq__(self, o):
        if isinstance(o, SymRatio):
            raise TypeError("ratio/ratio comparison unsupported")
        return self.num == self.den * o

    def __ne__(self, o):
        return not self.__eq__(o)

    def __hash__(self):
        return 0

    def __mul__(self, o):
        if isinstance(o, (int, float)) and not isinstance(o, bool):
            return SymRatio(self.num * o, self.den)
        raise TypeError("SymRatio arithmetic unsupported")

    __rmul__ = __mul__

    def __neg__(self):
        return SymRatio(-self.num, self.den)


numbers.Real.register(SymNum)
numbers.Integral.register(SymInt)
numbers.Real.register(SymRatio)
