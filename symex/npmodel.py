"""A dtype-aware stand-in for the parts of numpy that pydcop.dcop.relations uses.

Unlike the plain object-array facade (shims.NP_FACADE) this model keeps numpy's *storage
semantics*: an array built from integers is int64 (assigning a real truncates towards zero), an
array built with dtype=float64 / np.zeros(float64) / from floats is float64 (assigning an integer
above 2^53 rounds to the nearest representable value, ties to even).  Integers are bounded by 2^54
in the jobs that use it, where the rounding function is

    r(v) = v                      if |v| <= 2^53 or v even
           v+1 if (v+1) % 4 == 0  else v-1      (odd v: tie between the two even neighbours)

Only what relations.py (and dpop's message size) touches is implemented; anything else raises.
"""
import types

import numpy as _np
import z3

from .symnum import SymNum, is_sym, make as _mk

P53 = 2 ** 53


def _is_intlike(v):
    return (isinstance(v, int) and not isinstance(v, bool)) or isinstance(v, _np.integer) or (is_sym(v) and v.is_int())


def _is_reallike(v):
    return isinstance(v, (float, _np.floating)) or (is_sym(v) and not v.is_int())


def round53(v):
    """float64 image of an integer with |v| <= 2^54."""
    if is_sym(v):
        t = v.t
        odd = (t % 2) != 0
        big = z3.Or(t > P53, t < -P53)
        up = ((t + 1) % 4) == 0
        r = z3.If(z3.And(big, odd), z3.If(up, t + 1, t - 1), t)
        return _mk(v.eng, z3.ToReal(r))
    return float(int(v))


def trunc(v):
    """int64 image of a real (truncation towards zero)."""
    if is_sym(v):
        t = v.t
        r = z3.If(t >= 0, z3.ToInt(t), -z3.ToInt(-t))
        return _mk(v.eng, r)
    return int(v)


def conv(v, tag):
    if tag == "int64":
        if _is_reallike(v):
            return trunc(v)
        return int(v) if isinstance(v, _np.integer) else v
    if tag == "float64":
        if _is_intlike(v):
            return round53(v)
        return float(v) if isinstance(v, _np.floating) else v
    return v


def _infer(obj):
    leaves = []

    def walk(x):
        if isinstance(x, ModelArray):
            leaves.append(("tag", x.tag))
        elif isinstance(x, (list, tuple)):
            for y in x:
                walk(y)
        elif isinstance(x, _np.ndarray):
            leaves.append(("tag", "float64" if x.dtype.kind == "f" else "int64" if x.dtype.kind in "iu" else "object"))
        else:
            leaves.append(("val", x))
    walk(obj)
    tags = set()
    for k, x in leaves:
        if k == "tag":
            tags.add(x)
        elif _is_reallike(x):
            tags.add("float64")
        elif _is_intlike(x) or isinstance(x, bool):
            tags.add("int64")
        else:
            tags.add("object")
    if "object" in tags:
        return "object"
    if "float64" in tags:
        return "float64"
    return "int64" if tags else "float64"


def _raw(obj):
    if isinstance(obj, ModelArray):
        return obj.a
    if isinstance(obj, (list, tuple)):
        return [_raw(x) for x in obj]
    return obj


class ModelArray:
    def __init__(self, a, tag):
        self.a = a            # numpy object array
        self.tag = tag

    # -- construction helpers ---------------------------------------------------------------
    @staticmethod
    def build(obj, tag=None):
        tag = tag or _infer(obj)
        raw = _np.array(_raw(obj), dtype=object)
        out = _np.empty(raw.shape, dtype=object)
        if raw.shape == ():
            out[()] = conv(raw[()], tag)
        else:
            for idx in _np.ndindex(raw.shape):
                out[idx] = conv(raw[idx], tag)
        return ModelArray(out, tag)

    # -- what relations.py uses --------------------------------------------------------------
    @property
    def shape(self):
        return self.a.shape

    @property
    def dtype(self):
        return _np.dtype("float64") if self.tag == "float64" else _np.dtype("int64") if self.tag == "int64" else _np.dtype(object)

    def __getitem__(self, s):
        r = self.a[s]
        if isinstance(r, _np.ndarray):
            return ModelArray(r, self.tag)
        # numpy returns a scalar for a full index; relations then wraps it with np.array again
        return ModelArray(_np.array(r, dtype=object).reshape(()), self.tag)

    def __setitem__(self, s, v):
        if isinstance(v, ModelArray):
            v = v.a
        if isinstance(v, _np.ndarray):
            tmp = _np.empty(v.shape, dtype=object)
            for idx in _np.ndindex(v.shape):
                tmp[idx] = conv(v[idx], self.tag)
            self.a[s] = tmp
        else:
            self.a[s] = conv(v, self.tag)

    def item(self):
        if self.a.size != 1:
            raise ValueError("can only convert an array of size 1 to a Python scalar")
        v = self.a.reshape(-1)[0]
        if self.tag == "float64" and isinstance(v, int):
            return float(v)
        return v

    def tolist(self):
        return self.a.tolist()

    def copy(self):
        return ModelArray(self.a.copy(), self.tag)

    def astype(self, dtype):
        tag = "float64" if _np.dtype(dtype).kind == "f" else "int64" if _np.dtype(dtype).kind in "iu" else "object"
        return ModelArray.build(self, tag)

    def __eq__(self, other):
        o = other.a if isinstance(other, ModelArray) else other
        return self.a == o

    def __hash__(self):
        return 0

    def _bin(self, other, op):
        o = other.a if isinstance(other, ModelArray) else other
        r = op(self.a, o)
        tag = "float64" if "float64" in (self.tag, getattr(other, "tag", None)) else self.tag
        return ModelArray.build(ModelArray(_np.array(r, dtype=object), "object"), tag)

    def __add__(self, other):
        return self._bin(other, lambda a, b: a + b)

    __radd__ = __add__

    def __sub__(self, other):
        return self._bin(other, lambda a, b: a - b)

    def __mul__(self, other):
        return self._bin(other, lambda a, b: a * b)

    def __str__(self):
        return "ModelArray(%s)" % (self.a.shape,)

    __repr__ = __str__

    def __len__(self):
        return len(self.a)


class _NpModel(types.ModuleType):
    def __init__(self):
        super().__init__("np_model")

    def __getattr__(self, name):
        return getattr(_np, name)

    @staticmethod
    def _tag(dtype):
        if dtype is None:
            return None
        k = _np.dtype(dtype).kind
        return "float64" if k == "f" else "int64" if k in "iu" else "object"

    def zeros(self, shape=None, dtype=float, **kw):
        a = _np.empty(shape, dtype=object)
        a.fill(0)
        return ModelArray(a, self._tag(dtype) or "float64")

    def array(self, obj, dtype=None, **kw):
        return ModelArray.build(obj, self._tag(dtype))

    def asarray(self, obj, dtype=None, **kw):
        return ModelArray.build(obj, self._tag(dtype))

    def copy(self, a):
        if isinstance(a, ModelArray):
            return a.copy()
        return ModelArray.build(a)

    def all(self, a, *args, **kw):
        a = a.a if isinstance(a, ModelArray) else a
        return bool(_np.all(_np.asarray(a, dtype=object).astype(bool)))


NP_MODEL = _NpModel()


def install_numpy_model():
    import pydcop.dcop.relations as rel
    if rel.np is not NP_MODEL:
        rel.np = NP_MODEL
