"""Instance catalogue: small DCOP structures with symbolic cost tables.

A spec is a plain dict (JSON-able, so it can be written into replay files):
  {"name": ..., "vars": {"x": 2, ...} (domain sizes), "cons": [["c0", ["x", "y"]], ...],
   "varcosts": ["x"], "mode": "min"|"max", "domain_kind": "int"|"str"}
"""
import itertools

from .engine import F

BIG = 2 ** 40

STRUCTS = {
    "single":      {"vars": {"x": 2}, "cons": []},
    "unary":       {"vars": {"x": 2}, "cons": [["c0", ["x"]]]},
    "pair":        {"vars": {"x": 2, "y": 2}, "cons": [["c0", ["x", "y"]]]},
    "pair_iso":    {"vars": {"x": 2, "y": 2, "z": 2}, "cons": [["c0", ["x", "y"]]]},
    "chain3":      {"vars": {"x": 2, "y": 2, "z": 2}, "cons": [["c0", ["x", "y"]], ["c1", ["y", "z"]]]},
    "star3":       {"vars": {"x": 2, "y": 2, "z": 2, "w": 2},
                    "cons": [["c0", ["x", "y"]], ["c1", ["x", "z"]], ["c2", ["x", "w"]]]},
    "triangle":    {"vars": {"x": 2, "y": 2, "z": 2},
                    "cons": [["c0", ["x", "y"]], ["c1", ["y", "z"]], ["c2", ["x", "z"]]]},
    "two_pairs":   {"vars": {"x": 2, "y": 2, "z": 2, "w": 2},
                    "cons": [["c0", ["x", "y"]], ["c1", ["z", "w"]]]},
    "ternary":     {"vars": {"x": 2, "y": 2, "z": 2}, "cons": [["c0", ["x", "y", "z"]]]},
    "ternary_bin": {"vars": {"x": 2, "y": 2, "z": 2},
                    "cons": [["c0", ["x", "y", "z"]], ["c1", ["x", "y"]]]},
    "pair_unary":  {"vars": {"x": 2, "y": 2}, "cons": [["c0", ["x", "y"]], ["c1", ["x"]]]},
    "pair_vcost":  {"vars": {"x": 2, "y": 2}, "cons": [["c0", ["x", "y"]]], "varcosts": ["x"]},
    "chain3_vcost": {"vars": {"x": 2, "y": 2, "z": 2}, "cons": [["c0", ["x", "y"]], ["c1", ["y", "z"]]],
                     "varcosts": ["y"]},
    "single_vcost": {"vars": {"x": 2}, "cons": [], "varcosts": ["x"]},
    # chain of 5 variables (diameter above Max-Sum's stability window of 4 repeats) with unary constraints near both ends
    "chain5_u": {"vars": {"v1": 2, "v2": 2, "v3": 2, "v4": 2, "v5": 2},
                 "cons": [["c12", ["v1", "v2"]], ["c23", ["v2", "v3"]], ["c34", ["v3", "v4"]], ["c45", ["v4", "v5"]],
                          ["u2", ["v2"]], ["u5", ["v5"]]]},
    "chain4_u": {"vars": {"v1": 2, "v2": 2, "v3": 2, "v4": 2},
                 "cons": [["c12", ["v1", "v2"]], ["c23", ["v2", "v3"]], ["c34", ["v3", "v4"]],
                          ["u2", ["v2"]], ["u4", ["v4"]]]},
    # two constraints over the same pair, own cost tables on both variables
    "pair_dbl_vcost2": {"vars": {"x": 2, "y": 2}, "cons": [["c0", ["x", "y"]], ["c1", ["x", "y"]]], "varcosts": ["x", "y"]},
    "ring7": {"vars": {"v%d" % i: 2 for i in range(7)}, "cons": [["c%d" % i, ["v%d" % i, "v%d" % ((i + 1) % 7)]] for i in range(7)]},
    # unary constraint on the variable that becomes the root of the pseudo-tree (highest degree) and has children
    "chain3_umid": {"vars": {"x": 2, "y": 2, "z": 2}, "cons": [["c0", ["x", "y"]], ["c1", ["y", "z"]], ["u", ["y"]]]},
    # variable names where one is a prefix / substring of another
    "triangle_names": {"vars": {"v1": 2, "v2": 2, "v10": 2}, "cons": [["c0", ["v10", "v2"]], ["c1", ["v2", "v1"]], ["c2", ["v10", "v1"]]]},
    "chain3_names": {"vars": {"v1": 2, "v10": 2, "v100": 2}, "cons": [["c0", ["v1", "v10"]], ["c1", ["v10", "v100"]]]},
    # the unconstrained variable sits in the middle of the lexical order
    "pair_isomid": {"vars": {"x": 2, "y": 2, "z": 2}, "cons": [["c0", ["x", "z"]]]},
    "pair_vcost2": {"vars": {"x": 2, "y": 2}, "cons": [["c0", ["x", "y"]]], "varcosts": ["x", "y"]},
    # scopes listed descendant-first / in reverse lexical order (dimension order differs from the tree order)
    "chain3_rev":  {"vars": {"x": 2, "y": 2, "z": 2}, "cons": [["c0", ["y", "x"]], ["c1", ["z", "y"]]]},
    "triangle_rev": {"vars": {"x": 2, "y": 2, "z": 2},
                     "cons": [["c0", ["y", "x"]], ["c1", ["z", "y"]], ["c2", ["z", "x"]]]},
    "triangle_mix": {"vars": {"x": 2, "y": 2, "z": 2},
                     "cons": [["c0", ["x", "y"]], ["c1", ["z", "y"]], ["c2", ["x", "z"]]]},
    # triangle x-y-z with a pendant w attached to x (diameter 2)
    "tri_pendant": {"vars": {"x": 2, "y": 2, "z": 2, "w": 2},
                    "cons": [["c0", ["x", "y"]], ["c1", ["x", "z"]], ["c2", ["y", "z"]], ["c3", ["x", "w"]]]},
    "pair_dbl":    {"vars": {"x": 2, "y": 2}, "cons": [["c0", ["x", "y"]], ["c1", ["x", "y"]]]},
    # complete graph on 4 variables: every pseudo-tree is a chain whose leaf has a separator of width 3 (two ancestors
    # shared between a node's separator and its child's); scopes in mixed orders
    "k4":          {"vars": {"w": 2, "x": 2, "y": 2, "z": 2},
                    "cons": [["c0", ["w", "x"]], ["c1", ["x", "y"]], ["c2", ["y", "z"]], ["c3", ["z", "w"]],
                             ["c4", ["y", "w"]], ["c5", ["x", "z"]]]},
}


def spec(name, mode="min", dom=None, **over):
    s = {k: (dict(v) if isinstance(v, dict) else [list(c) if isinstance(c, list) else c for c in v])
         for k, v in STRUCTS[name].items()}
    s.setdefault("varcosts", [])
    s["name"] = name
    s["mode"] = mode
    if dom:
        if isinstance(dom, int):
            s["vars"] = {v: dom for v in s["vars"]}
        else:
            s["vars"].update(dom)
    s.update(over)
    return s


class Instance:
    """A DCOP built from a spec with symbolic (or replayed concrete) cost tables."""

    def __init__(self, eng, sp, lo=-BIG, hi=BIG, entry_kinds=None, hard_value=None, kind_filter=None, real=False):
        from pydcop.dcop.dcop import DCOP
        from pydcop.dcop.objects import Domain, Variable, VariableWithCostDict
        from pydcop.dcop.relations import NAryMatrixRelation

        self.eng = eng
        self.spec = sp
        self.kind_filter = kind_filter
        self.real = real
        self.mode = sp["mode"]
        kind = sp.get("domain_kind", "int")
        self.domains = {}
        self.variables = {}
        self.tables = {}        # cname -> {index tuple: value}
        self.vcosts = {}        # vname -> {domain value: cost}
        self.constraints = {}
        self.scopes = {c: list(sc) for c, sc in sp["cons"]}
        objective = sp["mode"]
        self.dcop = DCOP("verif", objective)
        for v, n in sp["vars"].items():
            # "own": str values that are distinct from one variable to the next (a value leaking from a neighbour is then
            # never a member of the receiving variable's domain)
            vals = (list(range(n)) if kind == "int" else ["%s_v%d" % (v, i) for i in range(n)] if kind == "own"
                    else ["v%d" % i for i in range(n)])
            if sp.get("domain_values", {}).get(v):
                vals = list(sp["domain_values"][v])          # explicit values (e.g. a domain shifted w.r.t. another one)
            d = Domain("d_" + v, "", vals)
            self.domains[v] = vals
            if v in sp.get("varcosts", []):
                costs = {val: self._entry("vc_%s_%d" % (v, i), lo, hi, entry_kinds, hard_value)
                         for i, val in enumerate(vals)}
                self.vcosts[v] = costs
                init = sp.get("initial", {}).get(v)
                var = VariableWithCostDict(v, d, costs, initial_value=init)
            else:
                init = sp.get("initial", {}).get(v)
                var = Variable(v, d, initial_value=init)
            self.variables[v] = var
            self.dcop.add_variable(var)
        for cname, scope in sp["cons"]:
            shape = [sp["vars"][v] for v in scope]
            tab = {}
            for idx in itertools.product(*[range(n) for n in shape]):
                tab[idx] = self._entry("%s_%s" % (cname, "".join(map(str, idx))), lo, hi,
                                       entry_kinds, hard_value)
            self.tables[cname] = tab
            nested = _nest(tab, shape)
            rel = NAryMatrixRelation([self.variables[v] for v in scope], nested, name=cname)
            self.constraints[cname] = rel
            self.dcop.add_constraint(rel)

    def _entry(self, name, lo, hi, kinds, hard_value):
        if kinds and (self.kind_filter is None or self.kind_filter(name)):
            k = self.eng.pick(kinds, "kind_" + name)
            if k == "inf":
                return float("inf")
            if k == "-inf":
                return float("-inf")
            if k == "zero":
                return 0
            if k == "hard":
                return hard_value
        pins = self.spec.get("pins")
        if pins and name in pins:
            return self.eng.sym_int(name, pins[name], pins[name])
        if isinstance(self.real, str) and self.real.startswith("dec"):
            return self.eng.sym_decimal(name, lo, hi, int(self.real[3:]))
        if self.real:
            return self.eng.sym_real(name, lo, hi)
        return self.eng.sym_int(name, lo, hi)

    # -- oracle side ------------------------------------------------------------------------
    def var_names(self):
        return list(self.spec["vars"])

    def assignments(self):
        names = self.var_names()
        for combo in itertools.product(*[self.domains[v] for v in names]):
            yield dict(zip(names, combo))

    def cost(self, asg, with_varcosts=True):
        """Total cost as a symbolic/concrete term, written from the definition."""
        terms = []
        for cname, scope in self.scopes.items():
            idx = tuple(self.domains[v].index(asg[v]) for v in scope)
            terms.append(self.tables[cname][idx])
        if with_varcosts:
            for v, costs in self.vcosts.items():
                terms.append(costs[asg[v]])
        return _sum(terms)

    def is_optimal(self, asg, with_varcosts=True):
        got = self.cost(asg, with_varcosts)
        cmp = F.le if self.mode == "min" else F.ge
        return F.and_([cmp(got, self.cost(a, with_varcosts)) for a in self.assignments()])


def _sum(terms):
    tot = 0
    for t in terms:
        tot = t + tot if not isinstance(t, float) else tot + t
    return tot


def _nest(tab, shape):
    if not shape:
        return tab[()]

    def rec(prefix, dims):
        if not dims:
            return tab[tuple(prefix)]
        return [rec(prefix + [i], dims[1:]) for i in range(dims[0])]
    return rec([], list(shape))
