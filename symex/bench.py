"""In-process bench: real computation objects wired without threads, symbolic scheduler.

Delivery model: any interleaving that keeps each (sender -> receiver) channel FIFO.
Messages a computation re-injects to itself with a priority below the default (start / resume)
go to that computation's priority lane, which is drained before any other delivery to it.
"""
from collections import OrderedDict, deque

from .engine import PathCut


class Bench:
    def __init__(self, eng, sleep_sets=True):
        self.eng = eng
        self.sleep_sets = sleep_sets
        self.comps = OrderedDict()
        self.channels = OrderedDict()     # (src, dst) -> deque[(msg, prio)]
        self.lanes = OrderedDict()        # dst -> deque[(src, msg)]
        self.started = []
        self.finished = []                # names, in order of finished() calls
        self.selections = []              # (name, val, cost, cycle)
        self.cycles = []                  # (name, count)
        self.delivered = []               # (src, dst, msg)
        self.sent = []                    # (src, dst, msg)
        self.ticks = OrderedDict()        # name -> list of callbacks
        self.steps = 0
        self.on_event = None              # callback(kind, info) after each transition
        self.on_finished = None
        self.on_cycle = None              # callback(name, count) inside new_cycle
        self.on_select = None             # callback(name, val, cost, cycle) inside value_selection

    # -- wiring -------------------------------------------------------------------------------
    def add(self, comp):
        name = comp.name
        self.comps[name] = comp
        comp.message_sender = self._sender
        try:
            comp.periodic_action_handler = _Periodic(self, name)
        except AttributeError:
            pass
        bench = self

        if hasattr(comp, "_on_value_selection"):
            orig_sel = comp._on_value_selection

            def sel(val, cost, cycle, _o=orig_sel, _n=name):
                bench.selections.append((_n, val, cost, cycle))
                if bench.on_select:
                    bench.on_select(_n, val, cost, cycle)
                return _o(val, cost, cycle)
            comp._on_value_selection = sel
        if hasattr(comp, "_on_new_cycle"):
            orig_cyc = comp._on_new_cycle

            def cyc(count, _o=orig_cyc, _n=name):
                bench.cycles.append((_n, count))
                if bench.on_cycle:
                    bench.on_cycle(_n, count)
                return _o(count)
            comp._on_new_cycle = cyc
        orig_fin = comp.finished

        def fin(_o=orig_fin, _n=name):
            bench.finished.append(_n)
            r = _o()
            if bench.on_finished:
                bench.on_finished(_n)
            return r
        comp.finished = fin
        return comp

    def _sender(self, src, dst, msg, prio=None, on_error=None):
        if self._reinjecting is not None and dst == self._reinjecting and prio is not None and prio < 20:
            self.lanes.setdefault(dst, deque()).append((src, msg))
            return
        self.sent.append((src, dst, msg))
        self.channels.setdefault((src, dst), deque()).append((msg, prio))

    _reinjecting = None
    ticks_enabled = True
    free_targets = None               # set of computation names: only deliveries to them are interleaved freely
    fixed_schedule = False            # True: always fire the first enabled transition (one canonical schedule)

    # -- transitions --------------------------------------------------------------------------
    def enabled(self, with_start=True):
        out = []
        if with_start:
            for n in self.comps:
                if n not in self.started:
                    out.append(("start", n))
        laned = set()
        for dst, q in self.lanes.items():
            if q:
                out.append(("lane", dst))
                laned.add(dst)
        for (src, dst), q in self.channels.items():
            if q and dst not in laned and dst in self.comps:
                out.append(("deliver", src, dst))
        for n, cbs in self.ticks.items():
            if self.ticks_enabled and cbs and n in self.started:
                out.append(("tick", n))
        return out

    @staticmethod
    def target(t):
        return t[-1]

    def fire(self, t):
        self.steps += 1
        kind = t[0]
        if kind == "start":
            self.start(t[1])
        elif kind == "lane":
            src, msg = self.lanes[t[1]].popleft()
            self.delivered.append((src, t[1], msg))
            self.comps[t[1]].on_message(src, msg, float(self.steps))
        elif kind == "deliver":
            msg, prio = self.channels[(t[1], t[2])].popleft()
            self.delivered.append((t[1], t[2], msg))
            self.comps[t[2]].on_message(t[1], msg, float(self.steps))
        elif kind == "tick":
            for cb in list(self.ticks[t[1]]):
                cb()
        if self.on_event:
            self.on_event(t)

    def start(self, name):
        self.started.append(name)
        self._reinjecting = name
        try:
            self.comps[name].start()
        finally:
            self._reinjecting = None

    def resume(self, name):
        self._reinjecting = name
        try:
            self.comps[name].pause(False)
        finally:
            self._reinjecting = None

    def start_all(self, order=None):
        for n in (order or list(self.comps)):
            self.start(n)

    def run(self, max_steps=200, stop=None):
        """Run until quiescence / budget.  Returns 'quiescent', 'budget' or 'stopped'."""
        sleep = frozenset()
        while True:
            if stop is not None and stop():
                return "stopped"
            en = self.enabled()
            if not en:
                return "quiescent"
            if self.steps >= max_steps:
                return "budget"
            cands = [t for t in en if t not in sleep]
            if not cands:
                raise PathCut()
            if self.free_targets is not None:
                # schedule freedom only for deliveries to the listed computations: anything else fires first, in canonical order
                forced = [t for t in cands if self.target(t) not in self.free_targets]
                if forced:
                    cands = forced[:1]
            i = 0 if self.fixed_schedule else self.eng.choose(len(cands), "sched")
            t = cands[i]
            if self.sleep_sets and not self.fixed_schedule:
                tgt = self.target(t)
                sleep = frozenset(s for s in (set(sleep) | set(cands[:i]))
                                  if self.target(s) != tgt)
            self.fire(t)

    def pending(self):
        return [(k, len(q)) for k, q in self.channels.items() if q] + \
               [(("lane", k), len(q)) for k, q in self.lanes.items() if q]


class _Periodic:
    def __init__(self, bench, name):
        self.bench = bench
        self.name = name

    def set_periodic_action(self, period, cb):
        self.bench.ticks.setdefault(self.name, []).append(cb)
        return cb

    def remove_periodic_action(self, handle):
        lst = self.bench.ticks.get(self.name, [])
        if handle in lst:
            lst.remove(handle)
