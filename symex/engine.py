"""Engine S: path-exhaustive symbolic execution of real Python code with z3.

A harness function `fn(eng)` is re-executed from scratch for every path.  A path
is identified by its decision prefix (list of ints): branch decisions (0/1) on
symbolic conditions and `choose(n)` picks.  Exploration is depth first and is
complete when the work list is empty.

Two engine classes share one API so that a harness can be executed
  * symbolically   (SymEngine: inputs are z3 terms wrapped in SymNum), and
  * concretely     (ConcreteEngine: inputs are plain Python numbers taken from a
                    solver model, choices scripted) -- used to replay witnesses
                    and counterexamples on the unshimmed code.
"""
import time
import traceback
import z3

from .symnum import SymNum, term_of, is_sym, make as _mksym


class PathCut(BaseException):
    """Abandon the current path silently (redundant interleaving / infeasible assumption)."""


class Inconclusive(BaseException):
    """Solver said unknown or an engine limit was hit: the whole check is inconclusive."""


class ReplayDivergence(BaseException):
    """Concrete replay did not follow the recorded choices."""


# ---------------------------------------------------------------------------
# formula layer usable with symbolic and concrete values (never forks)
# ---------------------------------------------------------------------------
class F:
    @staticmethod
    def _t(x):
        return term_of(x)

    @staticmethod
    def _sym(*xs):
        return any(is_sym(x) or isinstance(x, z3.ExprRef) for x in xs)

    @staticmethod
    def _cmp(a, b, op):
        # concrete infinities are decided in Python; mixed inf/symbolic too
        if not F._sym(a, b):
            return op(a, b)
        fa = isinstance(a, float) and (a != a or a in (float("inf"), float("-inf")))
        fb = isinstance(b, float) and (b != b or b in (float("inf"), float("-inf")))
        if fa or fb:
            # symbolic side is finite: compare with 0 as a finite representative
            ca = a if fa else 0
            cb = b if fb else 0
            return op(ca, cb)
        return op(F._t(a), F._t(b))

    @staticmethod
    def le(a, b):
        return F._cmp(a, b, lambda x, y: x <= y)

    @staticmethod
    def lt(a, b):
        return F._cmp(a, b, lambda x, y: x < y)

    @staticmethod
    def ge(a, b):
        return F._cmp(a, b, lambda x, y: x >= y)

    @staticmethod
    def gt(a, b):
        return F._cmp(a, b, lambda x, y: x > y)

    @staticmethod
    def eq(a, b):
        if not F._sym(a, b):
            return a == b
        fa = isinstance(a, float) and a in (float("inf"), float("-inf"))
        fb = isinstance(b, float) and b in (float("inf"), float("-inf"))
        if fa or fb:
            return False
        if not _numeric(a) or not _numeric(b):
            raise TypeError("F.eq on non-numeric operand: %r / %r" % (type(a), type(b)))
        return F._t(a) == F._t(b)

    @staticmethod
    def ne(a, b):
        return F.not_(F.eq(a, b))

    @staticmethod
    def and_(*xs):
        if len(xs) == 1 and isinstance(xs[0], (list, tuple)):
            xs = xs[0]
        xs = list(xs)
        if any(x is False for x in xs):
            return False
        ys = [x for x in xs if x is not True]
        if not ys:
            return True
        if all(isinstance(y, bool) for y in ys):
            return all(ys)
        return z3.And([_b(y) for y in ys])

    @staticmethod
    def or_(*xs):
        if len(xs) == 1 and isinstance(xs[0], (list, tuple)):
            xs = xs[0]
        xs = list(xs)
        if any(x is True for x in xs):
            return True
        ys = [x for x in xs if x is not False]
        if not ys:
            return False
        if all(isinstance(y, bool) for y in ys):
            return any(ys)
        return z3.Or([_b(y) for y in ys])

    @staticmethod
    def not_(x):
        if isinstance(x, bool):
            return not x
        return z3.Not(x)

    @staticmethod
    def implies(a, b):
        return F.or_(F.not_(a), b)

    @staticmethod
    def iff(a, b):
        if isinstance(a, bool) and isinstance(b, bool):
            return a == b
        return _b(a) == _b(b)

    @staticmethod
    def ite(c, a, b):
        if isinstance(c, bool):
            return a if c else b
        return SymNum.wrap(z3.If(c, F._t(a), F._t(b)))

    @staticmethod
    def sum(xs):
        tot = 0
        for x in xs:
            tot = tot + x
        return tot

    @staticmethod
    def min_(xs):
        xs = list(xs)
        m = xs[0]
        for x in xs[1:]:
            m = F.ite(F.le(m, x), m, x)
        return m

    @staticmethod
    def max_(xs):
        xs = list(xs)
        m = xs[0]
        for x in xs[1:]:
            m = F.ite(F.ge(m, x), m, x)
        return m


def _numeric(x):
    return is_sym(x) or isinstance(x, (int, float, z3.ExprRef)) and not isinstance(x, bool) or isinstance(x, bool)


def _b(x):
    if isinstance(x, bool):
        return z3.BoolVal(x)
    return x


# ---------------------------------------------------------------------------
class Stats:
    FIELDS = ("paths", "cut_paths", "forks", "queries", "solver_s", "proved", "refuted",
              "known_hits", "asserts_reached", "max_depth", "choices", "exceptions", "nontrivial")

    def __init__(self):
        for f in self.FIELDS:
            setattr(self, f, 0)

    def as_dict(self):
        return {f: getattr(self, f) for f in self.FIELDS}

    def add(self, other):
        d = other if isinstance(other, dict) else other.as_dict()
        for f in self.FIELDS:
            if f == "max_depth":
                self.max_depth = max(self.max_depth, d.get(f, 0))
            else:
                setattr(self, f, getattr(self, f) + d.get(f, 0))


class SymEngine:
    symbolic = True

    def __init__(self, query_timeout_ms=60000):
        self.solver = z3.Solver()
        self.solver.set("timeout", query_timeout_ms)
        self.stats = Stats()
        self.findings = []      # violation candidates (dicts)
        self.known = []         # known-finding hits (dicts)
        self.samples = []       # a few explored paths, for evidence
        self.sample_limit = 3
        self.smt_dumps = []      # (smt2 text, expected 'sat'/'unsat') of a few final queries, for the solver cross-check
        self.smt_dump_limit = 0
        self._reset_path([])

    # -- per path state -----------------------------------------------------
    def _reset_path(self, prefix):
        self.prefix = list(prefix)
        self.pos = 0
        self.trace = []         # every recorded decision of this path
        self.choice_log = []    # (tag, n, i) of choose() only
        self.inputs = {}        # name -> z3 const
        self.pc = []
        self._pending = []
        self._memo = {}
        self._model = None
        self._new_siblings = []
        self.notes = {}

    # -- symbolic inputs ------------------------------------------------------
    def sym_int(self, name, lo=None, hi=None):
        v = z3.Int(name)
        self.inputs[name] = v
        if lo is not None:
            self._assume_raw(v >= lo)
        if hi is not None:
            self._assume_raw(v <= hi)
        return _mksym(self, v)

    def sym_real(self, name, lo=None, hi=None):
        v = z3.Real(name)
        self.inputs[name] = v
        if lo is not None:
            self._assume_raw(v >= lo)
        if hi is not None:
            self._assume_raw(v <= hi)
        return _mksym(self, v)

    def sym_decimal(self, name, lo, hi, digits):
        """A real with `digits` decimals: k / 10^digits for a symbolic integer k (keeps rounding constraints in integer arithmetic)."""
        scale = 10 ** digits
        k = z3.Int(name)
        self.inputs[name] = k
        self._assume_raw(k >= int(lo * scale))
        self._assume_raw(k <= int(hi * scale))
        return _mksym(self, z3.ToReal(k) / scale)

    def wrap(self, term):
        return _mksym(self, term)

    # -- solver plumbing --------------------------------------------------------
    def _assume_raw(self, f):
        self.pc.append(f)
        self._pending.append(f)
        self._model = None

    def _flush(self):
        if self._pending:
            self.solver.add(*self._pending)
            self._pending = []

    def _check(self, extra=None):
        self._flush()
        t0 = time.perf_counter()
        if extra is not None:
            self.solver.push()
            self.solver.add(extra)
        r = self.solver.check()
        m = self.solver.model() if r == z3.sat else None
        if extra is not None:
            self.solver.pop()
        self.stats.queries += 1
        self.stats.solver_s += time.perf_counter() - t0
        if r == z3.unknown:
            raise Inconclusive("solver unknown: %s" % self.solver.reason_unknown())
        return r == z3.sat, m

    def _cur_model(self):
        if self._model is None:
            ok, m = self._check()
            if not ok:
                raise PathCut()
            self._model = m
        return self._model

    def assume(self, f):
        """Add an assumption; abandon the path if it makes the path condition unsat."""
        if isinstance(f, bool):
            if not f:
                raise PathCut()
            return
        f = z3.simplify(f)
        if z3.is_true(f):
            return
        if z3.is_false(f):
            raise PathCut()
        if self.pos < len(self.prefix):
            # replaying: feasibility of this prefix was established when it was created
            self._assume_raw(f)
            return
        ok, m = self._check(f)
        if not ok:
            raise PathCut()
        self._assume_raw(f)
        self._model = m

    def branch(self, f):
        """Decide a symbolic condition; forks when both outcomes are feasible."""
        if isinstance(f, bool):
            return f
        f = z3.simplify(f)
        if z3.is_true(f):
            return True
        if z3.is_false(f):
            return False
        if z3.is_not(f):
            return not self._branch_core(f.arg(0))
        return self._branch_core(f)

    def _branch_core(self, f):
        key = f.get_id()
        hit = self._memo.get(key)
        if hit is not None:
            return hit[0]
        if self.pos < len(self.prefix):
            taken = bool(self.prefix[self.pos])
        else:
            m = self._cur_model()
            mv = z3.is_true(m.eval(f, model_completion=True))
            other = z3.Not(f) if mv else f
            ok, m2 = self._check(other)
            if ok:
                # both feasible: take True first, push False
                taken = True
                self._new_siblings.append(self.trace + [0])
                self.stats.forks += 1
                if not mv:
                    self._model = m2
            else:
                taken = mv
        self.pos += 1
        self.trace.append(1 if taken else 0)
        self._memo[key] = (taken, f)
        g = f if taken else z3.Not(f)
        self.pc.append(g)
        self._pending.append(g)
        return taken

    def choose(self, n, tag="choice"):
        if n <= 0:
            raise PathCut()
        if n == 1:
            return 0
        if self.pos < len(self.prefix):
            i = self.prefix[self.pos]
        else:
            i = 0
            for j in range(n - 1, 0, -1):
                self._new_siblings.append(self.trace + [j])
        self.pos += 1
        self.trace.append(i)
        self.choice_log.append((tag, n, i))
        self.stats.choices += 1
        return i

    def pick(self, seq, tag="pick"):
        seq = list(seq)
        return seq[self.choose(len(seq), tag)]

    # -- assertions -------------------------------------------------------------
    def model_inputs(self, m):
        out = {}
        for name, v in self.inputs.items():
            val = m.eval(v, model_completion=True)
            out[name] = _pyval(val)
        return out

    def prove(self, prop, what, regions=None, detail=None):
        """One non-forking query: path condition AND NOT prop.

        regions: optional list of (finding_id, formula_or_bool) describing listed known
        findings; a counterexample inside a region is reported as known, and the question is
        asked again outside every region.
        """
        self.stats.asserts_reached += 1
        regions = regions or []
        if prop is True:
            self.stats.proved += 1
            return True
        neg = F.not_(prop)
        # outside every region
        outside = F.and_([neg] + [F.not_(r) for _, r in regions])
        ok = True
        if outside is not False:
            sat, m = (True, self._cur_model()) if outside is True else self._check(_b(outside))
            if outside is not True and len(self.smt_dumps) < self.smt_dump_limit:
                self._dump_query(_b(outside), "sat" if sat else "unsat")
            if sat:
                ok = False
                self.stats.refuted += 1
                self.findings.append(self._finding(what, m, detail))
        for fid, r in regions:
            inside = F.and_(neg, r)
            if inside is False:
                continue
            sat, m = (True, self._cur_model()) if inside is True else self._check(_b(inside))
            if sat:
                self.stats.known_hits += 1
                k = self._finding(what, m, detail)
                k["finding_id"] = fid
                self.known.append(k)
        if ok:
            self.stats.proved += 1
        return ok

    def _dump_query(self, extra, expected):
        try:
            s = z3.Solver()
            s.add(*self.pc)
            s.add(extra)
            self.smt_dumps.append((s.to_smt2(), expected))
        except Exception:
            pass

    def fail(self, what, regions=None, detail=None):
        """The current (feasible) path itself is a violation, e.g. an exception escaped."""
        return self.prove(False, what, regions, detail)

    def _finding(self, what, m, detail):
        return {"what": what, "inputs": self.model_inputs(m),
                "choices": [list(c) for c in self.choice_log], "detail": detail,
                "notes": dict(self.notes)}

    def witness(self):
        """Concrete values for the inputs satisfying the current path condition."""
        return self.model_inputs(self._cur_model())

    # -- exploration --------------------------------------------------------------
    def run_path(self, fn, prefix):
        """Run one path; returns list of new sibling prefixes."""
        self._reset_path(prefix)
        self.solver.push()
        try:
            try:
                fn(self)
                self.stats.paths += 1
                n = self.stats.paths
                if len(self.samples) < self.sample_limit or n in (10, 100, 1000, 10000, 100000):
                    try:
                        m = self._cur_model()
                        self.samples.append({"inputs_witness": self.model_inputs(m),
                                             "choices": [list(c) for c in self.choice_log],
                                             "decisions": len(self.trace),
                                             "notes": _concretize(dict(self.notes), m)})
                    except PathCut:
                        pass
            except PathCut:
                self.stats.cut_paths += 1
            except Inconclusive:
                raise
            except Exception as e:  # escaped from the code under test on a feasible path
                self.stats.paths += 1
                self.stats.exceptions += 1
                tb = traceback.format_exc(limit=-6)
                self.fail("exception %s: %s" % (type(e).__name__, e), detail=tb)
            self.stats.max_depth = max(self.stats.max_depth, len(self.trace))
            if self.trace:
                self.stats.nontrivial += 1       # the path took at least one solver / choice decision
            if self.pos < len(self.prefix):
                raise Inconclusive("replay misaligned: prefix longer than path (%d < %d)"
                                   % (self.pos, len(self.prefix)))
        finally:
            self.solver.pop()
        return self._new_siblings

    def explore(self, fn, prefixes=None, budget_s=None, max_paths=None):
        """DFS from the given prefixes.  Returns leftover prefixes if a budget stopped it."""
        stack = [list(p) for p in (prefixes if prefixes is not None else [[]])]
        t0 = time.perf_counter()
        n = 0
        while stack:
            if budget_s is not None and time.perf_counter() - t0 > budget_s:
                break
            if max_paths is not None and n >= max_paths:
                break
            p = stack.pop()
            sib = self.run_path(fn, p)
            stack.extend(sib)
            n += 1
        return stack


def _concretize(obj, m):
    """Replace symbolic numbers inside a notes structure by their value in model m."""
    if is_sym(obj):
        return _pyval(m.eval(obj.t, model_completion=True))
    if isinstance(obj, dict):
        return {str(k): _concretize(v, m) for k, v in obj.items()}
    if isinstance(obj, (list, tuple)):
        return [_concretize(v, m) for v in obj]
    return obj


def _pyval(val):
    if z3.is_int_value(val):
        return val.as_long()
    if z3.is_rational_value(val):
        num, den = val.numerator_as_long(), val.denominator_as_long()
        if den == 1:
            return num
        return {"num": num, "den": den}
    if z3.is_true(val):
        return True
    if z3.is_false(val):
        return False
    return str(val)


def unpack_value(v):
    """Model value from JSON back to a Python number (Fractions become floats)."""
    if isinstance(v, dict) and "num" in v:
        return v["num"] / v["den"]
    return v


class ConcreteEngine:
    """Same API, concrete values: used to replay a witness / counterexample on unshimmed code."""
    symbolic = False

    def __init__(self, inputs, choices):
        self.inputs_given = dict(inputs)
        self.script = [tuple(c) for c in choices]
        self.pos = 0
        self.failed = []
        self.proved = 0
        self.notes = {}
        self.choice_log = []

    def sym_int(self, name, lo=None, hi=None):
        if name not in self.inputs_given:
            raise ReplayDivergence("input %s not in witness" % name)
        return unpack_value(self.inputs_given[name])

    def sym_real(self, name, lo=None, hi=None):
        v = self.sym_int(name, lo, hi)
        return float(v) if isinstance(v, int) and not isinstance(v, bool) else v

    def sym_decimal(self, name, lo, hi, digits):
        return self.sym_int(name, None, None) / 10 ** digits

    def assume(self, f):
        if not f:
            raise ReplayDivergence("assumption false under concrete replay")

    def branch(self, f):
        return bool(f)

    def choose(self, n, tag="choice"):
        if n <= 0:
            raise PathCut()
        if n == 1:
            return 0
        if self.pos >= len(self.script):
            raise ReplayDivergence("choice script exhausted at %s" % tag)
        t, m, i = self.script[self.pos]
        self.pos += 1
        if m != n:
            raise ReplayDivergence("choice arity differs at %s: recorded %s/%d, now %d" % (tag, t, m, n))
        self.choice_log.append((tag, n, i))
        return i

    def pick(self, seq, tag="pick"):
        seq = list(seq)
        return seq[self.choose(len(seq), tag)]

    def prove(self, prop, what, regions=None, detail=None):
        if bool(prop):
            self.proved += 1
            return True
        inside = [fid for fid, r in (regions or []) if bool(r)]
        self.failed.append({"what": what, "detail": detail, "regions": inside})
        return False

    def fail(self, what, regions=None, detail=None):
        return self.prove(False, what, regions, detail)

    def run(self, fn):
        try:
            fn(self)
        except PathCut:
            raise ReplayDivergence("path cut under concrete replay")
        except ReplayDivergence:
            raise
        except Exception as e:
            self.fail("exception %s: %s" % (type(e).__name__, e), detail=traceback.format_exc(limit=-6))
        return self.failed
