"""C05 -- Max-Sum without damping is exact on acyclic factor graphs."""
import traceback

from harness.common import begin, build_computations, region, Bench, F
from symex.catalogue import Instance, spec, BIG

EXPLANATION = ("Real Max-Sum (synchronous mixin) and A-Max-Sum computations, variables and factors, on the real factor graph of "
               "tree-shaped DCOPs with symbolic tables, damping 0 and noise 0. The unique optimum a* is chosen (all of them are "
               "explored) and assumed strictly better than every other assignment before the run; after the delivery budget the "
               "selected assignment must be a*. Rational arithmetic model (averages are exact rationals).")
ASSUMPTIONS = [
    "tables are symbolic integers in [-2^20, 2^20]; Max-Sum's normalisation sum/len(domain) is modelled in exact rationals (for domain size 2 "
    "float64 is exact on these values); every counterexample is replayed with real floats",
    "unique optimum: cost(a*) strictly better than the cost of every other assignment",
    "damping=0, noise=0, other parameters default (stability 0.1, start_messages leafs)",
    "delivery model: per-channel FIFO interleavings (sleep-set reduced) for A-Max-Sum on the pair; synchronous rounds for Max-Sum (canonical schedule: the mixin makes the round structure schedule-independent, which C08 checks)",
]
BOUNDS = {
    "quick": "the stability cut-off approx_match on symbolic cost messages (domain 2-3); single binary factor (pair), min and max, domain 2: Max-Sum 8 rounds (canonical schedule), A-Max-Sum all FIFO schedules up to 60 deliveries; pair with unary factor; pair whose two variables have their own cost tables; chains of 4 and 5 variables (equality penalties pinned, two symbolic unary factors in [-8, 8], 24-30 rounds: longer than the stability window)",
    "thorough": "quick + chain-3 (Max-Sum, 10 rounds, canonical schedule), star-3, pair with domain 3 (rational model), A-Max-Sum chain-3 canonical schedule, chain of 5 variables with pinned equality penalties (30 rounds)",
}
OUTSIDE = "more than 4 variables, cyclic graphs, float rounding at domain size 3, damping/noise other than 0"
CAP_S = {"quick": 1200, "thorough": 14400}
LIM = 2 ** 20


def jobs(tier):
    out = []
    for mode in ("min", "max"):
        out.append({"name": "maxsum-pair-%s" % mode, "algo": "maxsum", "spec": spec("pair", mode), "rounds": 8, "fixed": True})
        out.append({"name": "amaxsum-pair-%s" % mode, "algo": "amaxsum", "spec": spec("pair", mode), "steps": 60, "fixed": False})
        # variables with their own cost tables (the variable -> factor messages are not zero-mean any more)
        out.append({"name": "maxsum-pairvcost2-%s" % mode, "algo": "maxsum", "spec": spec("pair_vcost2", mode), "rounds": 8, "fixed": True})
        out.append({"name": "maxsum-pairunary-%s" % mode, "algo": "maxsum", "spec": spec("pair_unary", mode), "rounds": 8,
                    "fixed": True})
        if tier == "thorough":
            out.append({"name": "maxsum-chain3-%s" % mode, "algo": "maxsum", "spec": spec("chain3", mode), "rounds": 10, "fixed": True})
            out.append({"name": "amaxsum-chain3-%s" % mode, "algo": "amaxsum", "spec": spec("chain3", mode), "steps": 120,
                        "fixed": True})
            out.append({"name": "amaxsum-pairunary-%s" % mode, "algo": "amaxsum", "spec": spec("pair_unary", mode), "steps": 80,
                        "fixed": True})
    # long chains: information from the far end arrives after the near end's messages went stable (SAME_COUNT repeats);
    # binary factors pinned to an equality penalty, the two unary factors symbolic
    eq = lambda names: {"%s_%d%d" % (c, i, j): (0 if i == j else 10) for c in names for i in range(2) for j in range(2)}
    out.append({"name": "maxsum-chain4u-eq-min", "algo": "maxsum", "rounds": 24, "fixed": True, "lim": 8,
                "spec": spec("chain4_u", "min", pins=eq(["c12", "c23", "c34"]))})
    if True:
        out.append({"name": "maxsum-chain5u-eq-min", "algo": "maxsum", "rounds": 30, "fixed": True, "lim": 8,
                    "spec": spec("chain5_u", "min", pins=eq(["c12", "c23", "c34", "c45"]))})
    for dom in (2, 3):
        out.append({"name": "approx_match-d%d" % dom, "kernel": "approx_match", "dom": dom})
    if tier == "thorough":
        out.append({"name": "maxsum-star3-min", "algo": "maxsum", "spec": spec("star3", "min"), "rounds": 10, "fixed": True})
        out.append({"name": "maxsum-pair-dom3-min", "algo": "maxsum", "spec": spec("pair", "min", dom=3), "rounds": 8, "fixed": True})
    return out


def run(eng, p):
    if p.get("kernel") == "approx_match":
        return run_approx_match(eng, p)
    algo = p["algo"]
    mods = ["pydcop.algorithms.maxsum", "pydcop.infrastructure.computations", "pydcop.dcop.objects"]
    if algo == "amaxsum":
        mods.append("pydcop.algorithms.amaxsum")
    begin(eng, random_modules=mods)
    lim = p.get("lim", LIM)
    inst = Instance(eng, p["spec"], lo=-lim, hi=lim, real=True)
    asgs = list(inst.assignments())
    star = asgs[eng.choose(len(asgs), "optimum")]
    better = F.lt if inst.mode == "min" else F.gt
    cstar = inst.cost(star)
    eng.assume(F.and_([better(cstar, inst.cost(a)) for a in asgs if a != star]))
    cg, comps = build_computations(inst.dcop, algo, inst.mode, {"damping": 0, "noise": 0})
    bench = Bench(eng)
    bench.fixed_schedule = bool(p.get("fixed"))
    for c in comps:
        bench.add(c)
    regs = []
    if algo == "amaxsum":
        regs = region(eng, "C05-amaxsum-last-sender-starved", True)
    try:
        bench.start_all()
        if algo == "maxsum":
            status = bench.run(max_steps=2000, stop=lambda: all(c.current_cycle >= p["rounds"] for c in comps))
        else:
            status = bench.run(max_steps=p["steps"])
    except Exception as e:
        eng.notes["outcome"] = {"exc": str(e)}
        eng.fail("exception %s: %s" % (type(e).__name__, e), detail=traceback.format_exc(limit=-5))
        return
    values = {n: bench.comps[n].current_value for n in inst.var_names()}
    eng.notes["outcome"] = {"status": status, "values": values, "optimum": star, "steps": bench.steps}
    eng.prove(values == star, "selected assignment is not the unique optimum after the delivery budget", regions=regs,
              detail=str(eng.notes["outcome"]))


# ---------------------------------------------------------------------------------------------------------------------
# kernel job: the stability cut-off (anchor "approx_match and SAME_COUNT") decided directly on symbolic cost messages
def run_approx_match(eng, p):
    begin(eng, numpy_facade=False)
    from pydcop.algorithms.maxsum import approx_match
    n = p["dom"]
    coef = 0.1
    prev_none = eng.choose(2, "prev_is_none") == 0 and p.get("allow_none", True)
    costs = {d: eng.sym_real("c_%d" % d, -LIM, LIM) for d in range(n)}
    if prev_none:
        got = approx_match(costs, None, coef)
        eng.notes["outcome"] = {"prev": None, "got": got}
        eng.prove(got is False, "approx_match(costs, None) must be False")
        return
    prev = {d: eng.sym_real("p_%d" % d, -LIM, LIM) for d in range(n)}
    got = approx_match(costs, prev, coef)
    eng.notes["outcome"] = {"got": bool(got)}
    conds = []
    for d in range(n):
        same = F.eq(prev[d], costs[d])
        s = prev[d] + costs[d]
        delta = abs(prev[d] - costs[d])
        close = F.and_(F.ne(s, 0), F.lt(2 * delta, coef * abs(s)))
        conds.append(F.or_(same, close))
    expected = F.and_(conds)
    eng.prove(F.iff(expected, bool(got)), "approx_match does not implement 'every entry equal or within the relative stability "
              "tolerance' (a message that differs, e.g. by a sign flip, would be treated as a repeat and cut off)")
