"""C24 -- ILP-based distribution methods: the built model is the specification (model == spec)."""
import importlib
import itertools
import traceback

from harness.common import begin, region, F
from symex.catalogue import Instance, spec
from symex.symnum import is_sym

EXPLANATION = ("Optimality of an ILP method = (the LP solver is exact) and (the model's feasible set and objective are the "
               "specification's). The first part is trusted (and cannot be exercised: no GLPK in the sandbox). The second is "
               "decided here: oilp_cgdp.ilp_cgdp / ilp_fgdp.factor_graph_lp_model are executed with LpProblem.solve replaced by "
               "a capture of the built model; capacities, footprints, hosting costs (zero, positive or negative symbolic) and routes are "
               "symbolic and flow into PuLP's coefficient arithmetic. For every 0/1 assignment of the placement and auxiliary "
               "variables (enumerated) z3 decides, for all parameter values: (i) the model is satisfiable on a placement iff the "
               "placement obeys the method's hard rules; (ii) on every feasible point the objective equals the method's own "
               "distribution_cost of the decoded placement.")
ASSUMPTIONS = [
    "the LP solver (GLPK, absent) is trusted to return an optimum of the model it is given",
    "a computation has a zero hosting cost on at most one agent (contradictory pinning is excluded)",
    "message load per link is the constant 1 so that route * load stays linear; all other parameters are symbolic reals in [0, 2^20] (hosting costs: 0, or in [1, 2^20], or in [-2^20, -1] on the slots where the sign is a choice)",
    "pulp's math.isfinite check on coefficients is shimmed to accept symbolic numbers",
]
BOUNDS = {"quick": "oilp_cgdp on the constraints hyper-graph of a pair, of chain-3 and of a ternary constraint (one hyper-link with three ends) with 2 agents; ilp_fgdp on the factor graph of a pair with 2 agents",
          "thorough": "quick + 3 agents on the pair, triangle with 2 agents"}
OUTSIDE = "more than 3 computations x 3 agents, symbolic message loads, the solve step"
CAP_S = {"quick": 900, "thorough": 5400}
LIM = 2 ** 20


class _Captured(Exception):
    pass


def jobs(tier):
    out = [{"name": "oilp_cgdp-pair-a2", "method": "oilp_cgdp", "algo": "dsa", "struct": "pair", "agents": 2},
           {"name": "oilp_cgdp-chain3-a2", "method": "oilp_cgdp", "algo": "dsa", "struct": "chain3", "agents": 2},
           {"name": "ilp_fgdp-pair-a2", "method": "ilp_fgdp", "algo": "maxsum", "struct": "pair", "agents": 2}]
    # two constraints over the same pair of variables (two links between the two computations)
    out.append({"name": "oilp_cgdp-pair-a2-asymroutes", "method": "oilp_cgdp", "algo": "dsa", "struct": "pair", "agents": 2,
                "asym_routes": True})
    # a hyper-link with three ends (ternary constraint)
    out.append({"name": "oilp_cgdp-ternary-a2", "method": "oilp_cgdp", "algo": "dsa", "struct": "ternary", "agents": 2})
    out.append({"name": "oilp_cgdp-pair_dbl-a2", "method": "oilp_cgdp", "algo": "dsa", "struct": "pair_dbl", "agents": 2})
    if tier == "thorough":
        out += [{"name": "oilp_cgdp-pair-a3", "method": "oilp_cgdp", "algo": "dsa", "struct": "pair", "agents": 3},
                {"name": "oilp_cgdp-triangle-a2", "method": "oilp_cgdp", "algo": "dsa", "struct": "triangle", "agents": 2}]
    return out


def _lin(expr, values):
    """Value of a PuLP affine expression under a 0/1 assignment of its variables (symbolic coefficients allowed)."""
    tot = expr.constant
    for var, coef in expr.items():
        if values[var.name]:
            tot = tot + coef
    return tot


def run(eng, p):
    begin(eng, numpy_facade=False)
    import pulp
    from pydcop.dcop.objects import AgentDef
    from pydcop.distribution.objects import Distribution
    from pydcop.algorithms import load_algorithm_module
    mod = importlib.import_module("pydcop.distribution." + p["method"])
    inst = Instance(eng, spec(p["struct"], "min"), lo=0, hi=0)
    gm = importlib.import_module("pydcop.computations_graph." + load_algorithm_module(p["algo"]).GRAPH_TYPE)
    cg = gm.build_computation_graph(inst.dcop)
    comps = [n.name for n in cg.nodes]
    foot = {c: eng.sym_real("foot_" + c, 0, LIM) for c in comps}
    agents, hosting, zero = [], {}, {}
    for i in range(p["agents"]):
        an = "a%d" % i
        hc = {}
        for c in comps:
            k = eng.pick(["pos", "zero", "neg"], "host_%s_%s" % (an, c)) if (c == comps[0] or (c == comps[-1] and i == 0)) else "pos"
            hc[c] = (0 if k == "zero" else eng.sym_real("hc_%s_%s" % (an, c), -LIM, -1) if k == "neg"
                     else eng.sym_real("hc_%s_%s" % (an, c), 1, LIM))
            zero[(an, c)] = (k == "zero")
        if p.get("asym_routes"):
            # direction-dependent route costs (only expressible through the API: the yaml loader forces symmetry)
            routes = {"a%d" % j: eng.sym_real("route_%d_to_%d" % (i, j), 0, LIM) for j in range(p["agents"]) if j != i}
        else:
            routes = {"a%d" % j: eng.sym_real("route_%d_%d" % (min(i, j), max(i, j)), 0, LIM) for j in range(p["agents"]) if j != i}
        agents.append(AgentDef(an, capacity=eng.sym_real("cap_" + an, 0, LIM), default_hosting_cost=1, hosting_costs=hc,
                               routes=routes, default_route=1))
        hosting[an] = hc
    names = [a.name for a in agents]
    for c_ in comps:
        if sum(1 for a_ in hosting if zero[(a_, c_)]) > 1:
            from symex.engine import PathCut
            raise PathCut()      # the same computation free on two agents: contradictory pinning, not an instance of the statement
    caps = {a.name: a.capacity for a in agents}
    cmem = lambda n: foot[n.name]
    cload = lambda n, t: 1
    captured = {}
    orig_solve = pulp.LpProblem.solve

    def fake_solve(self, *a, **k):
        captured["pb"] = self
        raise _Captured()
    pulp.LpProblem.solve = fake_solve
    try:
        try:
            mod.distribute(cg, agents, hints=None, computation_memory=cmem, communication_load=cload)
        except _Captured:
            pass
    except Exception as e:
        eng.fail("building the ILP model raised %s: %s" % (type(e).__name__, e), detail=traceback.format_exc(limit=-5))
        return
    finally:
        pulp.LpProblem.solve = orig_solve
    pb = captured.get("pb")
    if pb is None:
        eng.fail("the method never called LpProblem.solve")
        return
    variables = {}
    for cname, c in pb.constraints.items():
        for v in c:
            variables[v.name] = v
    for v in pb.objective:
        variables[v.name] = v
    xvars = sorted(n for n in variables if n.startswith("x_") or n.startswith("f_"))
    aux = sorted(n for n in variables if n not in xvars)
    eng.notes["outcome"] = {"x": len(xvars), "aux": len(aux), "constraints": len(pb.constraints)}
    pinned = [(c, a) for a in names for c in comps if zero[(a, c)]]
    var_of = {}
    for c_ in comps:
        for a_ in names:
            for pref in ("x_", "f_"):
                if pref + c_ + "_" + a_ in variables:
                    var_of[(c_, a_)] = pref + c_ + "_" + a_
    fixed_place = {}
    for c_ in comps:
        have = [a_ for a_ in names if (c_, a_) in var_of]
        if len(have) == len(names):
            continue
        pins = [a_ for (cc, a_) in pinned if cc == c_]
        if have or len(pins) != 1:
            if len(pins) > 1:
                raise_cut = True
                from symex.engine import PathCut
                raise PathCut()          # a computation free on two agents at once: contradictory pinning, outside the statement
            eng.fail("unexpected placement variables in the model", detail=str((c_, have, xvars)))
            return
        fixed_place[c_] = pins[0]

    def xname(c_, a_):
        return var_of.get((c_, a_))
    if len(xvars) != len(var_of):
        eng.fail("unexpected placement variables in the model", detail=str(xvars))
        return
    regs = []
    # second listed finding: two computations joined by several links (several constraints over the same pair)
    pair_links = {}
    for l in cg.links:
        for pr in itertools.combinations(sorted(l.nodes), 2):
            pair_links[pr] = pair_links.get(pr, 0) + 1
    regs = regs + region(eng, "C24-oilp-cgdp-multi-link-load", p["method"] == "oilp_cgdp" and any(n > 1 for n in pair_links.values()))
    fgdp = p["method"] == "ilp_fgdp"
    # ilp_fgdp minimises -(load of the links kept inside an agent): objective == cost - total load
    obj_shift = len(list(cg.links)) if fgdp else 0
    feas_conds, obj_conds = [], []
    bad_example = {}
    for bits in itertools.product([0, 1], repeat=len(xvars)):
        xv = dict(zip(xvars, bits))
        place = {c: ([fixed_place[c]] if c in fixed_place else [a for a in names if xv[xname(c, a)]]) for c in comps}
        once = all(len(v) == 1 for v in place.values())
        # specification of the hard rules
        spec_terms = [once]
        if once:
            for a in names:
                spec_terms.append(F.le(F.sum([foot[c] for c in comps if place[c] == [a]]), caps[a]))
            for c, a in pinned:
                spec_terms.append(place[c] == [a])
            if fgdp:
                spec_terms.append(all(any(place[c] == [a] for c in comps) for a in names))
        spec_f = F.and_(spec_terms)
        model_alts = []
        for abits in itertools.product([0, 1], repeat=len(aux)):
            vals = dict(xv)
            vals.update(zip(aux, abits))
            cs = []
            for cname, c in pb.constraints.items():
                val = _lin(c, vals)
                if c.sense == 0:
                    cs.append(F.eq(val, 0))
                elif c.sense < 0:
                    cs.append(F.le(val, 0))
                else:
                    cs.append(F.ge(val, 0))
            ok = F.and_(cs)
            if ok is False:
                continue
            model_alts.append(ok)
            if once:
                mapping = {a: [c for c in comps if place[c] == [a]] for a in names}
                cost = mod.distribution_cost(Distribution(mapping), cg, agents, cmem, cload)[0]
                obj_conds.append(F.implies(F.and_(ok, spec_f), F.eq(_lin(pb.objective, vals) + obj_shift, cost)))
        feas_conds.append(F.iff(F.or_(model_alts) if model_alts else False, spec_f))
    eng.prove(F.and_(feas_conds), "the model's feasible placements differ from the method's hard rules "
              "(each computation once, capacity, zero-hosting-cost pinning%s)" % (", every agent hosts something" if fgdp else ""))
    # (the listed finding concerns the objective only: the feasible set is checked without any region)
    eng.prove(F.and_(obj_conds) if obj_conds else True,
              "the model's objective differs from the method's distribution_cost on a feasible placement", regions=regs)
