"""C12 -- matrix updates, join and projection follow their algebraic definition."""
import itertools

from harness.common import begin, region, F

EXPLANATION = ("set_value_for_assignment / join / projection of pydcop.dcop.relations are executed on matrix relations "
               "with symbolic tables; the oracle is the cell-wise algebraic definition over every assignment.")
ASSUMPTIONS = [
    "table entries are integers (or reals in the 'real' jobs) with |c| <= 2^40 on a plain object-array facade of numpy",
    "'bigint' / 'mixed' jobs: integers up to 2^54 (resp. a real value set on an integer table) on a dtype-aware model of numpy storage "
    "(symex/npmodel.py: int64 truncates reals, float64 rounds integers above 2^53 to nearest-even); every counterexample is replayed on real numpy",
]
BOUNDS = {
    "quick": "storage-semantics jobs (integers up to 2^54; real value on an integer table) for set/join/projection on 1-2 scopes; relations over scopes drawn from 4 variables (domain sizes 2,2,3,2): all pairs of scopes of size <= 2 plus selected size-3 scopes; dict and list forms; min and max; every assignment to set (choice)",
    "thorough": "quick + all pairs of scopes of size <= 3, real-valued tables, str-valued domains",
}
OUTSIDE = "more than 4 variables, domains above 3, float rounding of ints above 2^53, NaN"
CAP_S = {"quick": 600, "thorough": 3600}

DOMS = {"x": 2, "y": 2, "z": 3, "w": 2}
BIG = 2 ** 40
HUGE = 2 ** 54        # jobs run on the dtype-aware numpy model (symex/npmodel.py)


def _scopes(maxlen):
    names = list(DOMS)
    out = [[]]
    for k in range(1, maxlen + 1):
        for c in itertools.permutations(names, k):
            if k <= 1 or list(c) == sorted(c) or k == 2:
                out.append(list(c))
    return out


def jobs(tier):
    out = []
    small = [s for s in _scopes(2) if len(s) <= 2 and (len(s) < 2 or s[0] < s[1] or s == ["y", "x"])]
    for kind in (["int"] if tier == "quick" else ["int", "real"]):
        for s in small + [["x", "y", "z"], ["z", "x", "w"]]:
            out.append({"name": "set-%s-%s" % ("".join(s) or "none", kind), "op": "set", "s1": s, "kind": kind})
            for v in s:
                for mode in ("min", "max"):
                    out.append({"name": "proj-%s-%s-%s-%s" % ("".join(s), v, mode, kind), "op": "proj", "s1": s,
                                "var": v, "mode": mode, "kind": kind})
        pairs = [(a, b) for a in small for b in small]
        pairs += [(["x", "y", "z"], ["z", "w"]), (["y", "x"], ["x", "y", "z"]), (["x", "y", "z"], ["z", "y", "x"])]
        if tier == "thorough":
            big = [["x", "y", "z"], ["y", "z", "w"], ["z", "x", "w"]]
            pairs += [(a, b) for a in big for b in big + small[:6]]
        for a, b in pairs:
            out.append({"name": "join-%s-%s-%s" % ("".join(a) or "none", "".join(b) or "none", kind), "op": "join",
                        "s1": a, "s2": b, "kind": kind})
    # storage semantics (int64 / float64) modelled: integers up to 2^54, real value into an integer table
    for s in (["x"], ["x", "y"], ["y", "z"]):
        out.append({"name": "set-%s-bigint" % "".join(s), "op": "set", "s1": s, "kind": "bigint", "npmodel": True})
        out.append({"name": "set-%s-mixed" % "".join(s), "op": "set", "s1": s, "kind": "mixed", "npmodel": True})
    out.append({"name": "join-xy-yz-bigint", "op": "join", "s1": ["x", "y"], "s2": ["y", "z"], "kind": "bigint", "npmodel": True})
    out.append({"name": "proj-xy-y-min-bigint", "op": "proj", "s1": ["x", "y"], "var": "y", "mode": "min", "kind": "bigint",
                "npmodel": True})
    if tier == "thorough":
        out.append({"name": "join-str", "op": "join", "s1": ["x", "y"], "s2": ["y", "z"], "kind": "int", "dk": "str"})
        out.append({"name": "set-str", "op": "set", "s1": ["x", "z"], "kind": "int", "dk": "str"})
    return out


def _mk(eng, p):
    from pydcop.dcop.objects import Domain, Variable
    dk = p.get("dk", "int")
    variables, doms = {}, {}
    for v, n in DOMS.items():
        vals = list(range(n)) if dk == "int" else ["a%d" % i for i in range(n)]
        doms[v] = vals
        variables[v] = Variable(v, Domain("d" + v, "", vals))
    return variables, doms


def _table(eng, p, tag, scope, variables, doms):
    from pydcop.dcop.relations import NAryMatrixRelation
    mk = eng.sym_real if p["kind"] == "real" else eng.sym_int
    lim = HUGE if p["kind"] in ("bigint", "mixed") else BIG
    shape = [len(doms[v]) for v in scope]
    tab = {}
    for idx in itertools.product(*[range(n) for n in shape]):
        tab[idx] = mk("%s_%s" % (tag, "".join(map(str, idx))), -lim, lim)

    def rec(prefix, dims):
        if not dims:
            return tab[tuple(prefix)]
        return [rec(prefix + [i], dims[1:]) for i in range(dims[0])]
    rel = NAryMatrixRelation([variables[v] for v in scope], rec([], shape), name=tag)
    return rel, tab


def _cells(scope, doms):
    for idx in itertools.product(*[range(len(doms[v])) for v in scope]):
        yield idx, {v: doms[v][i] for v, i in zip(scope, idx)}


def run(eng, p):
    if p.get("npmodel"):
        begin(eng, numpy_facade=False)
        if eng.symbolic:
            from symex.npmodel import install_numpy_model
            install_numpy_model()
    else:
        begin(eng)
    from pydcop.dcop.relations import join, projection
    variables, doms = _mk(eng, p)
    s1 = p["s1"]
    u1, t1 = _table(eng, p, "u1", s1, variables, doms)
    if p["op"] == "set":
        form = eng.pick(["dict", "list"], "form")
        target = tuple(eng.choose(len(doms[v]), "cell_" + v) for v in s1)
        asg = {v: doms[v][i] for v, i in zip(s1, target)}
        if p["kind"] == "bigint":
            val = eng.sym_int("newval", -HUGE, HUGE)
        elif p["kind"] in ("real", "mixed"):
            val = eng.sym_real("newval", -BIG, BIG)
        else:
            val = eng.sym_int("newval", -BIG, BIG)
        arg = dict(asg) if form == "dict" else [asg[v] for v in s1]
        new = u1.set_value_for_assignment(arg, val)
        eng.notes["outcome"] = {"form": form, "target": list(target)}
        eng.prove([v.name for v in new.dimensions] == s1, "set_value changed the dimensions")
        conds, same = [], []
        for idx, a in _cells(s1, doms):
            got = new(**a)
            conds.append(F.eq(got, val if idx == target else t1[idx]))
            old = u1(**a)
            same.append(F.eq(old, t1[idx]))
        regs = []
        if p["kind"] == "mixed":
            # a real value forces float64 storage: integer cells beyond 2^53 are rounded (listed finding)
            P53 = 2 ** 53
            regs = region(eng, "C12-float64-result-rounding", F.or_([F.or_(F.gt(t, P53), F.lt(t, -P53)) for t in t1.values()]))
        eng.prove(F.and_(conds), "new relation differs from original somewhere else than at the assignment (or not set)",
                  regions=regs)
        eng.prove(F.and_(same), "set_value_for_assignment modified the original relation")
    elif p["op"] == "join":
        s2 = p["s2"]
        u2, t2 = _table(eng, p, "u2", s2, variables, doms)
        j = join(u1, u2)
        union = list(s1) + [v for v in s2 if v not in s1]
        names = [v.name for v in j.dimensions]
        eng.notes["outcome"] = {"dims": names}
        eng.prove(names == union, "join scope is not the union of the scopes (u1 first, then new ones)", detail=str(names))
        conds = []
        for idx, a in _cells(union, doms):
            e1 = t1[tuple(doms[v].index(a[v]) for v in s1)]
            e2 = t2[tuple(doms[v].index(a[v]) for v in s2)]
            got = j(**a)
            conds.append(F.eq(got, e1 + e2))
        P53 = 2 ** 53
        big = F.or_([F.or_(F.gt(t, P53), F.lt(t, -P53)) for t in list(t1.values()) + list(t2.values())] +
                    [F.or_(F.gt(a + b, P53), F.lt(a + b, -P53)) for a in t1.values() for b in t2.values()])
        regs = region(eng, "C12-float64-result-rounding", big) if p["kind"] == "bigint" else []
        eng.prove(F.and_(conds), "join value differs from u1 + u2 on some assignment", regions=regs)
    elif p["op"] == "proj":
        var, mode = p["var"], p["mode"]
        pr = projection(u1, variables[var], mode)
        rest = [v for v in s1 if v != var]
        names = [v.name for v in pr.dimensions]
        eng.notes["outcome"] = {"dims": names}
        eng.prove(names == rest, "projection scope is not scope(u) minus x", detail=str(names))
        conds = []
        for idx, a in _cells(rest, doms):
            cands = []
            for d in doms[var]:
                full = dict(a)
                full[var] = d
                cands.append(t1[tuple(doms[v].index(full[v]) for v in s1)])
            got = pr(**a)
            opt = F.min_(cands) if mode == "min" else F.max_(cands)
            conds.append(F.eq(got, opt))
        P53 = 2 ** 53
        regs = region(eng, "C12-float64-result-rounding",
                      F.or_([F.or_(F.gt(t, P53), F.lt(t, -P53)) for t in t1.values()])) if p["kind"] == "bigint" else []
        eng.prove(F.and_(conds), "projection value differs from the %s over the eliminated variable" % mode, regions=regs)
