"""C17 -- the pseudo-tree is a valid DFS forest for every constraint graph."""
import itertools
import traceback

from harness.common import begin

EXPLANATION = ("Every constraint graph on n <= 5 variables (each possible binary edge present or not: solver-chosen), "
               "optionally one ternary constraint, with a chosen variable insertion order, is handed to the real pseudo-tree "
               "builder; the oracle checks the DFS-forest definition (one node per variable, mutually consistent parent/children "
               "and pseudo links, acyclic, every constraint-sharing pair in ancestor/descendant relation and directly linked, "
               "node constraints == constraints on its variable, no exception). Structural exploration: each path = one graph.")
ASSUMPTIONS = ["constraints are neutral relations", "variable names v0..v4; insertion order lexical / reversed / rotated"]
BOUNDS = {"quick": "all graphs on n <= 4 vertices (+ optional ternary constraint), n = 5 without ternary; all graphs on 2-3 vertices with an optional unary constraint on each vertex; concrete chains of 6, 40, 600 and 1200 variables (above the interpreter's default recursion limit)",
          "thorough": "all graphs on n <= 5 vertices with and without a ternary constraint, 3 insertion orders; concrete chains of 1000 and 2000 variables"}
OUTSIDE = ("graphs above 5 vertices in general; for the 'long chains up to thousands of variables' part of the quantifier only the listed "
           "concrete chain lengths are executed (a concrete probe, not a solver decision: symbolic execution cannot scale a loop whose "
           "trip count is the input size)")
CAP_S = {"quick": 900, "thorough": 7200}


def jobs(tier):
    out = []
    for n in (1, 2, 3, 4):
        out.append({"name": "n%d" % n, "n": n, "ternary": n >= 3, "orders": ["lexical", "reversed"]})
    # unary constraints (each vertex optionally carries one), also on isolated variables
    for n in (2, 3):
        out.append({"name": "n%d-unary" % n, "n": n, "ternary": False, "orders": ["lexical", "reversed"], "unary": True})
    out.append({"name": "n5", "n": 5, "ternary": False, "orders": ["lexical"]})
    out.append({"name": "chains", "chain": True, "lengths": [6, 40, 600, 1200]})
    if tier == "thorough":
        out.append({"name": "n5-ternary", "n": 5, "ternary": True, "orders": ["lexical", "reversed", "rotated"]})
        out.append({"name": "chains-long", "chain": True, "lengths": [1000, 2000]})
    return out


def run(eng, p):
    begin(eng, numpy_facade=False)
    from pydcop.dcop.dcop import DCOP
    from pydcop.dcop.objects import Domain, Variable
    from pydcop.dcop.relations import NeutralRelation
    import pydcop.computations_graph.pseudotree as pt
    d = Domain("d", "", [0, 1])
    if p.get("chain"):
        n = eng.pick(p["lengths"], "chain_length")
        names = ["v%02d" % i for i in range(n)]
        edges = [(names[i], names[i + 1]) for i in range(n - 1)]
        ins, tern = list(names), None
    else:
        n = p["n"]
        names = ["v%d" % i for i in range(n)]
        order = eng.pick(p["orders"], "insertion")
        ins = {"lexical": list(names), "reversed": list(reversed(names)), "rotated": names[1:] + names[:1]}[order]
        edges = [pair for pair in itertools.combinations(names, 2) if eng.choose(2, "edge_%s_%s" % pair)]
        tern = None
        if p.get("ternary") and eng.choose(2, "ternary"):
            triples = list(itertools.combinations(names, 3))
            tern = triples[eng.choose(len(triples), "ternary_scope")]
    V = {nm: Variable(nm, d) for nm in names}
    dcop = DCOP("g", "min")
    for nm in ins:
        dcop.add_variable(V[nm])
    scopes = {}
    for i, (a, b) in enumerate(edges):
        scopes["e%d" % i] = [a, b]
    if tern:
        scopes["t0"] = list(tern)
    if p.get("unary"):
        for nm in names:
            if eng.choose(2, "unary_" + nm):
                scopes["u_" + nm] = [nm]
    for cn, sc in scopes.items():
        dcop.add_constraint(NeutralRelation([V[v] for v in sc], name=cn))
    eng.notes["outcome"] = {"n": n, "scopes": scopes if n <= 6 else len(scopes), "insertion": ins if n <= 6 else "lexical"}
    try:
        cg = pt.build_computation_graph(dcop)
    except Exception as e:
        eng.fail("pseudo-tree construction raised %s: %s" % (type(e).__name__, e), detail=traceback.format_exc(limit=-4))
        return
    nodes = {nd.name: nd for nd in cg.nodes}
    why = None
    if sorted(nodes) != sorted(names) or len(list(cg.nodes)) != len(names):
        why = ("one node per variable", sorted(nodes))
    rel = {}
    if not why:
        for v in names:
            rel[v] = pt.get_dfs_relations(nodes[v])
        for v in names:
            parent, pps, children, pcs = rel[v]
            if parent is not None and v not in rel[parent][2]:
                why = ("parent link not mirrored by a children link", v, parent)
            for c in children:
                if rel[c][0] != v:
                    why = ("children link not mirrored by a parent link", v, c)
            for pp in pps:
                if v not in rel[pp][3]:
                    why = ("pseudo_parent not mirrored by pseudo_children", v, pp)
            for pc in pcs:
                if v not in rel[pc][1]:
                    why = ("pseudo_children not mirrored by pseudo_parent", v, pc)
            if len(set(children)) != len(children) or len(set(pps)) != len(pps) or len(set(pcs)) != len(pcs):
                why = ("duplicate links", v)
    anc = {}
    if not why:
        for v in names:
            chain, cur, seen = [], rel[v][0], {v}
            while cur is not None:
                if cur in seen:
                    why = ("cycle through parent links", v)
                    break
                seen.add(cur)
                chain.append(cur)
                cur = rel[cur][0]
            anc[v] = chain
    if not why:
        for cn, sc in scopes.items():
            for a, b in itertools.combinations(sc, 2):
                if a in anc[b]:
                    up, down = a, b
                elif b in anc[a]:
                    up, down = b, a
                else:
                    why = ("constraint-sharing variables not in ancestor/descendant relation", cn, a, b)
                    continue
                direct = (rel[down][0] == up) or (up in rel[down][1])
                if not direct:
                    why = ("constraint-sharing pair not linked by a tree edge or a back edge", cn, up, down)
        for v in names:
            parent, pps, children, pcs = rel[v]
            for pp in pps:
                if pp not in anc[v] or pp == parent:
                    why = ("pseudo parent is not a proper non-parent ancestor", v, pp)
                if not any(v in sc and pp in sc for sc in scopes.values()):
                    why = ("back edge between variables that share no constraint", v, pp)
            if parent is not None and not any(v in sc and parent in sc for sc in scopes.values()):
                why = ("tree edge between variables that share no constraint", v, parent)
            got = sorted(c.name for c in nodes[v].constraints)
            exp = sorted(cn for cn, sc in scopes.items() if v in sc)
            if got != exp:
                why = ("node constraints differ from the constraints on its variable", v, got, exp)
    eng.prove(why is None, "pseudo-tree is not a valid DFS forest of the constraint graph", detail=str((why, eng.notes["outcome"])))
