"""C25 -- replica placement terminates and keeps replicas safe."""
import importlib
import itertools
import traceback

from harness.common import begin, build_computations, region, Bench, F
from symex.catalogue import Instance, spec

EXPLANATION = ("Real UCSReplication computations, one per agent, each with a real Discovery instance and a stand-in Agent object "
               "(name, agent_def, computations()), exchange their real UCSReplicateMessage through the bench; capacities, "
               "footprints, hosting costs and route costs are symbolic (the sorted path tables fork on them), k is chosen, and "
               "per-channel-FIFO interleavings are explored with sleep-set reduction (the class-level footprint cache is shared "
               "by all agents of the process, as the statement quantifies; with one computation per owner its entries depend on "
               "their key only, so deliveries to different agents commute). Oracle: every agent reports replication_done; "
               "replicas sit on distinct non-owner agents, at most k, each recorded in discovery and known to the owner; at every "
               "acceptance the inequality of the statement holds with footprints recomputed from the replicas actually held.")
ASSUMPTIONS = [
    "all agents live in one process (shared class attribute memoize_footprint), cleared between explored paths",
    "agents are wired without a directory: each Discovery is pre-filled with the hosting of every computation (publish=False)",
    "costs, capacities and footprints are symbolic integers in [1, 2^20]; routes are symmetric",
    "message lists (paths, visited, hosts) are shared by reference between sender and receiver, as with the in-process transport",
]
BOUNDS = {"quick": "3 agents in a line (x-y-z, one computation each), k in {1,2}; canonical schedule with symbolic costs + all FIFO interleavings with pinned costs; a star of 4 computations with two of them on one agent (k in {2,3}, canonical schedule; symbolic footprints, and equal concrete footprints with symbolic capacities)",
          "thorough": "quick + all FIFO interleavings with symbolic costs (k=1), triangle of agents; bug hunting only (cpu budget): an agent owning two computations with every interleaving of the deliveries (sleep-set reduced)"}
OUTSIDE = "more than 3 agents, k = 3, agent departures during replication, the HTTP transport"
CAP_S = {"quick": 1200, "thorough": 10800}
LIM = 2 ** 20


def jobs(tier):
    pins = {"cap": 10, "foot": 2, "host": 1, "route": 1}
    out = [{"name": "line3-fixed-sym", "struct": "chain3", "ks": [1, 2], "fixed": True},
           {"name": "line3-allsched-pinned", "struct": "chain3", "ks": [1, 2], "fixed": False, "pins": pins},
           {"name": "line3-allsched-tight", "struct": "chain3", "ks": [2], "fixed": False, "pins": {"cap": 5, "foot": 2, "host": 1, "route": 1}}]
    # two computations of different footprints on one agent: their replicas meet on a third agent
    out.append({"name": "star-two-on-one-fixed", "struct": "star3", "ks": [2, 3], "fixed": True, "sleep": False, "pins": {"route": 1, "host": 1},
                "owners": {"x": "a1", "y": "a0", "z": "a0", "w": "a2"}})
    # the same with equal, concrete footprints (hash-based containers only merge equal concrete numbers) and symbolic capacities
    out.append({"name": "star-two-on-one-equalfoot", "struct": "star3", "ks": [2, 3], "fixed": True, "sleep": False,
                "pins": {"route": 1, "host": 1, "foot": 2}, "concrete": ["foot"], "owners": {"x": "a1", "y": "a0", "z": "a0", "w": "a2"}})
    # an agent owning two computations, every interleaving (all numbers pinned): the two searches share nothing
    two = {"struct": "star3", "ks": [2], "fixed": False, "pins": {"cap": 10, "foot": 2, "route": 1, "host": 1},
           "owners": {"x": "a1", "y": "a0", "z": "a0", "w": "a2"}}
    # > 10^5 interleavings: thorough tier only, under its cpu budget (bug hunting)
    if tier == "thorough":
        out.append(dict(two, name="two-on-one-allsched", hunt_cpu_s=5000))
    if tier == "thorough":
        out += [{"name": "line3-allsched-sym-k1", "struct": "chain3", "ks": [1], "fixed": False},
                {"name": "triangle-fixed-sym", "struct": "triangle", "ks": [1, 2], "fixed": True}]
    return out


class _Hosted:
    def __init__(self, name, fp):
        self.name, self._fp = name, fp

    def footprint(self):
        return self._fp


class _Agent:
    def __init__(self, name, agent_def, hosted):
        self.name, self.agent_def, self._hosted = name, agent_def, hosted

    def computations(self):
        return list(self._hosted)


def run(eng, p):
    begin(eng, numpy_facade=False)
    from pydcop.dcop.objects import AgentDef
    from pydcop.infrastructure.discovery import Discovery
    from pydcop.algorithms import AlgorithmDef, ComputationDef
    import pydcop.replication.dist_ucs_hostingcosts as ucs
    ucs.UCSReplication.memoize_footprint.clear()
    pins = p.get("pins")

    def num(name, kind):
        if pins and kind in pins:
            if kind in p.get("concrete", ()):
                return pins[kind]                  # a plain Python number (equal ones merge in sets / dict keys)
            return eng.sym_int(name, pins[kind], pins[kind])
        return eng.sym_int(name, 1, LIM)
    inst = Instance(eng, spec(p["struct"], "min"), lo=0, hi=0)
    cg = importlib.import_module("pydcop.computations_graph.constraints_hypergraph").build_computation_graph(inst.dcop)
    algo = AlgorithmDef.build_with_default_param("dsa", {}, mode="min")
    comps = [n.name for n in cg.nodes]
    owner = dict(p["owners"]) if p.get("owners") else {c: "a%d" % i for i, c in enumerate(comps)}
    agts = sorted(set(owner.values()))
    k = eng.pick(p["ks"], "k")
    foot = {c: num("foot_" + c, "foot") for c in comps}
    route = {}
    for a, b in itertools.combinations(agts, 2):
        route[(a, b)] = route[(b, a)] = num("route_%s_%s" % (a, b), "route")
    reps, discos, done, accepted = {}, {}, [], []
    # sleep sets: sound here because with one computation per owner every entry of the shared footprint cache is a function
    # of its key alone (same owner tuple => same footprints), so deliveries to different agents still commute
    bench = Bench(eng, sleep_sets=bool(p.get("sleep", True)))
    bench.fixed_schedule = bool(p.get("fixed"))
    if p.get("free_targets"):
        bench.free_targets = set(p["free_targets"])
    for a in agts:
        adef = AgentDef(a, capacity=num("cap_" + a, "cap"), default_hosting_cost=num("host_" + a, "host"),
                        routes={b: route[(a, b)] for b in agts if b != a}, default_route=1)
        disco = Discovery(a, "addr_" + a)
        for b in agts:
            disco.register_agent(b, "addr_" + b, publish=False)
        for c in comps:
            disco.register_computation(c, owner[c], publish=False)
        mine = [c for c in comps if owner[c] == a]
        agent = _Agent(a, adef, [_Hosted(c, foot[c]) for c in mine])
        rep = ucs.UCSReplication(agent, disco, k_target=k)
        for c in mine:
            rep.add_computation(ComputationDef(cg.computation(c), algo), foot[c])
        rep.replication_done = (lambda hosts, _a=a: done.append(_a))
        orig_accept = rep._accept_replica

        def accept(origin, comp_def, fp, _rep=rep, _o=orig_accept, _a=a, _cap=adef.capacity, _mine=tuple(mine)):
            held = dict(_rep._hosted_replicas)
            # written from the definition (not read from the code under analysis): capacity minus what the agent runs itself
            remaining = _cap - F.sum([foot[c] for c in _mine])
            owners = sorted(set(o for o, f in held.values()))
            m = min(k - 1, len(owners))
            worst = [F.sum([f for o, f in held.values() if o in sel]) for sel in itertools.combinations(owners, m)] or [0]
            accepted.append((_a, comp_def.name, F.and_([F.ge(remaining, fp + w) for w in worst])))
            return _o(origin, comp_def, fp)
        rep._accept_replica = accept
        reps[a], discos[a] = rep, disco
        bench.add(rep)
    # listed finding (if open): the footprint cache is keyed by owner names only and never invalidated
    regs = region(eng, "C25-memoize-footprint-stale", True)
    try:
        bench.start_all()
        for a in agts:
            reps[a].replicate(k)
        status = bench.run(max_steps=300)
    except Exception as e:
        eng.notes["outcome"] = {"exc": str(e)}
        eng.fail("exception %s: %s" % (type(e).__name__, e), regions=regs, detail=traceback.format_exc(limit=-5))
        return
    held = {a: sorted(reps[a]._hosted_replicas) for a in agts}
    eng.notes["outcome"] = {"status": status, "k": k, "done": sorted(done), "held": held, "steps": bench.steps}
    eng.prove(status == "quiescent", "replication messages keep flowing (no quiescence within 300 deliveries)", regions=regs)
    eng.prove(sorted(done) == agts, "not every agent reported replication done exactly once", regions=regs,
              detail=str(eng.notes["outcome"]))
    ok, why = True, None
    for c in comps:
        hosts = [a for a in agts if c in reps[a]._hosted_replicas]
        if owner[c] in hosts or len(hosts) > k or len(set(hosts)) != len(hosts):
            ok, why = False, ("replicas of %s on %s" % (c, hosts))
        for a in hosts:
            if a not in discos[a].replica_agents(c):
                ok, why = False, ("replica of %s on %s not recorded in discovery" % (c, a))
        if set(reps[owner[c]]._replica_hosts.get(c, set())) != set(hosts):
            ok, why = False, ("owner of %s believes its replicas are on %s, actually %s" % (c, sorted(reps[owner[c]]._replica_hosts.get(c, [])), hosts))
    eng.prove(ok, "replicas are not on distinct non-owner agents, at most k, recorded in discovery and known to the owner",
              regions=regs, detail=str((why, eng.notes["outcome"])))
    eng.prove(F.and_([f for _, _, f in accepted]) if accepted else True,
              "a replica was accepted although remaining capacity < new footprint + worst-case footprint of held replicas for k-1 owners",
              regions=regs, detail=str([(a, c) for a, c, _ in accepted]))
