"""C01 -- DPOP returns an optimal assignment on every DCOP and schedule."""
from harness.common import begin, build_computations, region, Bench, F
from symex.catalogue import Instance, spec, BIG

EXPLANATION = ("Real DpopAlgo computations built on the real pseudo-tree of a DCOP whose cost tables are symbolic "
               "integers; start order and per-channel-FIFO delivery order are solver-chosen (sleep-set reduced). "
               "Oracle: brute-force definition of optimality over all assignments, one query per path.")
ASSUMPTIONS = [
    "cost-table entries are integers in [-2^40, 2^40] (float64 storage of such ints is exact)",
    "pydcop.dcop.relations.np replaced by a facade building dtype=object arrays; float() in dpop is the identity on symbolic numbers",
    "random.choice in dpop returns an arbitrary element (explored exhaustively)",
    "delivery model: any interleaving keeping each sender->receiver channel FIFO; transitions to different computations commute (sleep sets)",
    "logging disabled",
]
BOUNDS = {
    "quick": "structures: single, unary, pair, pair+isolated, chain-3, triangle (scopes in lexical, reversed and mixed order), pair+unary, chain-3 with a unary constraint on the root, pair with variable cost, pair / chain-3 with a single-value domain, triangle / chain-3 whose variable names contain one another (v1, v10, v100); domain size 2; min and max; all start orders and FIFO interleavings",
    "thorough": "quick + star-3, two disconnected pairs, ternary, ternary+binary, chain-3 with variable costs, pair with domain 3 (all schedules), chain-3 with one domain of size 3 (canonical schedule), str-valued domains; bug hunting only (cpu budget): complete graph on 4 variables (separators of width 3), canonical schedule",
}
OUTSIDE = "more than 4 variables, domains larger than 3, arity above 3, float-valued tables, infinite costs"
CAP_S = {"quick": 900, "thorough": 5400}


def jobs(tier):
    out = []
    quick = ["single", "unary", "pair", "pair_iso", "chain3", "triangle", "pair_unary", "chain3_umid", "pair_vcost", "single_vcost",
             "chain3_rev", "triangle_rev", "triangle_mix", "triangle_names", "chain3_names"]
    for s in quick:
        for mode in ("min", "max"):
            out.append({"name": "%s-%s" % (s, mode), "spec": spec(s, mode), "start": "interleaved"})
    for mode in ("min", "max"):
        # a variable with a single-value domain
        out.append({"name": "pair-fixedvar-%s" % mode, "spec": spec("pair", mode, dom={"x": 1, "y": 2}), "start": "interleaved"})
        out.append({"name": "chain3-fixedmid-%s" % mode, "spec": spec("chain3", mode, dom={"x": 2, "y": 1, "z": 2}), "start": "interleaved"})
    if tier == "thorough":
        for s in ["star3", "two_pairs", "ternary", "ternary_bin", "chain3_vcost"]:
            for mode in ("min", "max"):
                out.append({"name": "%s-%s" % (s, mode), "spec": spec(s, mode), "start": "interleaved"})
        for mode in ("min", "max"):
            out.append({"name": "pair-dom3-%s" % mode, "spec": spec("pair", mode, dom=3), "start": "upfront"})
            # chain-3 with all domains of size 3 does not exhaust (> 2 million paths in 25 min): one variable of size 3
            out.append({"name": "chain3-dom322-%s" % mode, "spec": spec("chain3", mode, dom={"x": 3}), "start": "upfront",
                        "fixed": True})
        # complete graph on 4 variables (separators of width 3): symbolic tables, canonical schedule, cpu budget
        for mode in ("min", "max"):
            out.append({"name": "k4-%s" % mode, "spec": spec("k4", mode), "start": "upfront", "fixed": True, "hunt_cpu_s": 1500})
        out.append({"name": "chain3-str-min", "spec": spec("chain3", "min", domain_kind="str"), "start": "upfront"})
    return out


def run(eng, p):
    begin(eng, random_modules=["pydcop.algorithms.dpop"], float_modules=["pydcop.algorithms.dpop"])
    inst = Instance(eng, p["spec"])
    cg, comps = build_computations(inst.dcop, "dpop", inst.mode)
    bench = Bench(eng)
    bench.fixed_schedule = bool(p.get("fixed"))
    for c in comps:
        bench.add(c)
    if p.get("start") == "upfront":
        bench.start_all()
    status = bench.run(max_steps=200)
    values = {n: c.current_value for n, c in bench.comps.items()}
    eng.notes["outcome"] = {"status": status, "values": values, "finished": sorted(bench.finished)}
    eng.prove(status == "quiescent", "run did not reach quiescence")
    eng.prove(sorted(bench.finished) == sorted(bench.comps), "not every computation finished",
              detail=str(eng.notes["outcome"]))
    in_dom = all(values[v] in inst.domains[v] for v in inst.var_names())
    eng.prove(in_dom and set(values) == set(inst.var_names()), "assignment incomplete or out of domain",
              detail=str(values))
    if in_dom:
        eng.prove(inst.is_optimal(values), "selected assignment is not optimal", detail=str(values))
