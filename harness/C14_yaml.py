"""C14 -- DCOP YAML files round-trip and load faithfully (dict layer)."""
import copy
import itertools
import re
import traceback

from harness.common import begin, region, F
from symex.catalogue import Instance, spec
from symex.symnum import is_sym

EXPLANATION = ("The repository's own dump code (dcop_yaml, _yaml_domains/_variables/_constraints, yaml_agents) and load code "
               "(load_dcop, _build_domains/_variables/_constraints/_agents) are executed on DCOPs with symbolic extensional cost "
               "tables (the grouping of equal costs into 'a b | c d' strings forks on cost equalities), symbolic capacities, route "
               "costs and hosting costs, and solver-chosen structure (int / str domains incl. single-value domains, initial value "
               "absent / 0 / other, intentional vs extensional constraints, agents with/without capacity, routes, hosting costs). "
               "During symbolic execution yaml.dump / yaml.load are replaced by a capture / merge of the plain data (PyYAML is "
               "trusted to round-trip plain dict/list/str/number data); in concrete replay the REAL yaml text layer is used.")
ASSUMPTIONS = [
    "PARTIAL (dict layer): the YAML text layer (scanner, resolver, number formatting) is only exercised on replayed witnesses, not for all inputs",
    "costs, capacities, routes, hosting costs are symbolic integers in [-2^20, 2^20] (capacities >= 0)",
    "routes are symmetric and all agents share one default route (what the format can express)",
    "one file / one string (multi-file loading is string concatenation and is outside)",
]
BOUNDS = {"quick": "a contiguous integer domain listed out of order; a hand-written agents section (global / per-agent default and specific hosting costs in both key orders, default and specific routes) loaded from a string, from one file (name as str or in a list) and from two files, and compared with what the text states; constraints: structures pair, chain-3, unary, ternary (domain 2, one job with domain 3), int and str domains, single-value domain, optional intentional constraint, initial value absent/first/last, with 2 plain agents; agents: 2 agents with every combination of capacity / symmetric route / default route / default and specific hosting cost",
          "thorough": "quick + triangle, 3 agents, pair with domain 3 and str values"}
OUTSIDE = "the YAML text layer for all inputs, several files, cost-function variables, external 'source:' constraints, distribution hints"
CAP_S = {"quick": 900, "thorough": 5400}
LIM = 2 ** 20
_TOKEN = re.compile(r"<<YAML:(\d+)>>")


class _YamlStub:
    """Stands for the yaml module inside pydcop.dcop.yamldcop during symbolic execution."""

    def __init__(self, real):
        self._real = real
        self.docs = []

    def __getattr__(self, name):
        return getattr(self._real, name)

    def dump(self, data, *a, **k):
        self.docs.append(copy.deepcopy(_plain(data)))
        return "<<YAML:%d>>\n" % (len(self.docs) - 1)

    def load(self, text, *a, **k):
        out = {}
        for m in _TOKEN.finditer(text):
            doc = copy.deepcopy(self.docs[int(m.group(1))])
            for key, val in doc.items():
                if key in out and isinstance(out[key], dict) and isinstance(val, dict):
                    out[key].update(val)
                else:
                    out[key] = val
        return out


def _plain(x):
    if isinstance(x, dict):
        # yaml.dump writes mappings with sorted keys (sort_keys=True): loading gives them back in that order
        # (only mappings with string keys are re-ordered here: the order of a 'values' mapping keyed by symbolic costs
        # does not matter to the loader and sorting it would fork on every pair of costs)
        keys = sorted(x) if all(isinstance(k, str) for k in x) else list(x)
        return {k: _plain(x[k]) for k in keys}
    if isinstance(x, (list, tuple)):
        return [_plain(v) for v in x]
    return x


def jobs(tier):
    out = []
    for s, dk in (("pair", "int"), ("pair", "str"), ("chain3", "int"), ("unary", "int"), ("ternary", "int")):
        out.append({"name": "%s-%s" % (s, dk), "spec": spec(s, "min", domain_kind=dk), "agents": 2})
    out.append({"name": "pair-dom3", "spec": spec("pair", "min", dom={"x": 3, "y": 2}), "agents": 2})
    out.append({"name": "single-value-domain", "spec": spec("pair", "min", dom={"x": 1, "y": 2}), "agents": 1})
    # two variables whose domains share a value at different positions ([0,1] and [1,2])
    out.append({"name": "pair-shifted-domains", "spec": spec("pair", "min", domain_values={"y": [1, 2]}),
                "agents": 1})
    # str values that differ only by letter case
    # a contiguous integer domain listed out of order (the order of the values is part of the domain)
    out.append({"name": "pair-unsorted-domain", "spec": spec("pair", "min", dom={"x": 3, "y": 2}, domain_values={"x": [2, 0, 1]}), "agents": 1})
    out.append({"name": "pair-case-domain", "spec": spec("pair", "min", domain_kind="str", domain_values={"x": ["a", "A"]}),
                "agents": 1})
    out.append({"name": "agents-only", "spec": spec("unary", "min"), "agents": 2, "agents_focus": True})
    # loading of a hand-written agents section: global / per-agent default hosting costs, specific costs, key order,
    # default route and symmetric routes (forms that dcop_yaml never emits itself)
    out.append({"name": "handwritten-agents", "handwritten": True})
    if tier == "thorough":
        out.append({"name": "triangle-int", "spec": spec("triangle", "min"), "agents": 3})
        out.append({"name": "pair-dom3-str", "spec": spec("pair", "min", dom=3, domain_kind="str"), "agents": 2})
    return out


def run_handwritten(eng, p):
    """A yaml text written by the harness (not by dcop_yaml) is loaded; the agents must have the costs the text states:
    hosting cost = specific cost of the computation, else the agent's own default, else the global default, else 0;
    route = the specific (symmetric) route, else the default route (1 when absent); route to itself 0."""
    begin(eng)
    import pydcop.dcop.yamldcop as yd
    glob = eng.pick([None, 0, 5], "global_default")
    glob_first = eng.pick([True, False], "global_default_first") if glob is not None else True
    entries = {}
    for a in ("a1", "a2"):
        kind = eng.pick(["absent", "computations", "default", "both"], "entry_" + a)
        e = {}
        if kind in ("default", "both"):
            e["default"] = eng.pick([0, 7], "agent_default_" + a)
        if kind in ("computations", "both"):
            e["computations"] = {"v1": eng.pick([0, 3], "specific_" + a)}
        if kind != "absent":
            entries[a] = e
    droute = eng.pick([None, 0, 4], "default_route")
    specific_route = eng.pick([None, 0, 9], "route_a1_a2")
    route_owner = eng.pick(["a1", "a2"], "route_written_under") if specific_route is not None else "a1"
    lines = ["name: t", "objective: min", "domains:", "  d: {values: [0, 1]}", "variables:", "  v1: {domain: d}",
             "  v2: {domain: d}", "constraints:", "  c1: {type: intention, function: v1 + v2}", "agents: [a1, a2, a3]"]
    if glob is not None or entries:
        lines.append("hosting_costs:")
        if glob is not None and glob_first:
            lines.append("  default: %d" % glob)
        for a, e in entries.items():
            lines.append("  %s:" % a)
            if "default" in e:
                lines.append("    default: %d" % e["default"])
            if "computations" in e:
                lines.append("    computations: {v1: %d}" % e["computations"]["v1"])
        if glob is not None and not glob_first:
            lines.append("  default: %d" % glob)
    if droute is not None or specific_route is not None:
        lines.append("routes:")
        if droute is not None:
            lines.append("  default: %d" % droute)
        if specific_route is not None:
            other = "a2" if route_owner == "a1" else "a1"
            lines.append("  %s: {%s: %d}" % (route_owner, other, specific_route))
    text = "\n".join(lines) + "\n"
    # the same text given as a string, as one file (path as str / in a list) or split over two files (agents part apart)
    how = eng.pick(["string", "file_str", "file_list", "two_files"], "loaded_from")
    eng.notes["outcome"] = {"yaml": text, "loaded_from": how}
    import tempfile, os, shutil
    tmp = tempfile.mkdtemp(prefix="verif_c14_")
    try:
        if how == "string":
            dcop = yd.load_dcop(text)
        else:
            cut = lines.index("agents: [a1, a2, a3]")
            f1, f2 = os.path.join(tmp, "dcop.yaml"), os.path.join(tmp, "agents.yaml")
            if how == "two_files":
                open(f1, "w").write("\n".join(lines[:cut]) + "\n")
                open(f2, "w").write("\n".join(lines[cut:]) + "\n")
                dcop = yd.load_dcop_from_file([f1, f2])
            else:
                open(f1, "w").write(text)
                dcop = yd.load_dcop_from_file(f1 if how == "file_str" else [f1])
    except Exception as e:
        eng.fail("loading the hand-written yaml (%s) raised %s: %s" % (how, type(e).__name__, e), detail=text + traceback.format_exc(limit=-3))
        return
    finally:
        shutil.rmtree(tmp, ignore_errors=True)
    if dcop is None:
        eng.fail("loading the hand-written yaml (%s) returned nothing" % how, detail=text)
        return
    bad = []
    for a in ("a1", "a2", "a3"):
        ag = dcop.agents[a]
        e = entries.get(a, {})
        for comp in ("v1", "v2", "c1"):
            exp = e.get("computations", {}).get(comp)
            if exp is None:
                exp = e.get("default")
            if exp is None:
                exp = glob if glob is not None else 0
            if ag.hosting_cost(comp) != exp:
                bad.append("hosting_cost(%s, %s) = %r, the text says %r" % (a, comp, ag.hosting_cost(comp), exp))
        for b in ("a1", "a2", "a3"):
            if b == a:
                exp = 0
            elif specific_route is not None and {a, b} == {"a1", "a2"}:
                exp = specific_route
            else:
                exp = droute if droute is not None else 1
            if ag.route(b) != exp:
                bad.append("route(%s, %s) = %r, the text says %r" % (a, b, ag.route(b), exp))
    eng.prove(not bad, "agents loaded from a hand-written yaml do not have the costs the text states", detail=str(bad[:4]) + text)


def run(eng, p):
    if p.get("handwritten"):
        return run_handwritten(eng, p)
    begin(eng)
    import pydcop.dcop.yamldcop as yd
    from pydcop.dcop.objects import AgentDef
    from pydcop.dcop.relations import constraint_from_str
    sp = copy.deepcopy(p["spec"])
    init_kind = eng.pick(["none", "first", "other"], "initial")
    first_var = list(sp["vars"])[0]
    kind = sp.get("domain_kind", "int")
    n0 = sp["vars"][first_var]
    vals0 = list(range(n0)) if kind == "int" else ["v%d" % i for i in range(n0)]
    if sp.get("domain_values", {}).get(first_var):
        vals0 = list(sp["domain_values"][first_var])
    if init_kind == "first":
        sp["initial"] = {first_var: vals0[0]}
    elif init_kind == "other":
        sp["initial"] = {first_var: vals0[-1]}
    inst = Instance(eng, sp, lo=-LIM, hi=LIM)
    dcop = inst.dcop
    names = inst.var_names()
    intent = None
    if not p.get("agents_focus") and eng.choose(2, "add_intentional"):
        expr = " + ".join("%s * %d" % (v, 10 ** i) for i, v in enumerate(names[:2])) if kind == "int" else \
            "1 if %s == '%s' else 0" % (names[0], vals0[0])
        intent = constraint_from_str("ci", expr, [inst.variables[v] for v in names])
        dcop.add_constraint(intent)
    agts = ["a%d" % i for i in range(p["agents"])]
    focus = bool(p.get("agents_focus"))
    droute = eng.sym_int("default_route", -LIM, LIM) if (focus and eng.choose(2, "custom_default_route")) else 1
    routes = {}
    for a, b in itertools.combinations(agts, 2):
        if focus and eng.choose(2, "route_%s_%s" % (a, b)):
            routes[(a, b)] = routes[(b, a)] = eng.sym_int("route_%s_%s" % (a, b), -LIM, LIM)
    agents = {}
    for a in agts:
        kw = {}
        if eng.choose(2, "has_capacity_" + a):
            kw["capacity"] = eng.sym_int("cap_" + a, 0, LIM)
        hk = eng.pick(["none", "default", "specific", "both"], "hosting_" + a) if focus else "none"
        dh = eng.sym_int("dh_" + a, -LIM, LIM) if hk in ("default", "both") else 0
        hc = {names[0]: eng.sym_int("hc_%s_%s" % (a, names[0]), -LIM, LIM)} if hk in ("specific", "both") else {}
        agents[a] = AgentDef(a, default_route=droute, routes={b: routes[(a, b)] for b in agts if (a, b) in routes},
                             default_hosting_cost=dh, hosting_costs=hc, **kw)
    dcop.add_agents(list(agents.values()))
    eng.notes["outcome"] = {"init": init_kind, "intent": bool(intent), "agents": len(agts)}
    stub = None
    try:
        if eng.symbolic:
            stub = _YamlStub(yd.yaml)
            yd.yaml = stub
        text = yd.dcop_yaml(dcop)
        back = yd.load_dcop(text)
    except Exception as e:
        eng.fail("dump/load raised %s: %s" % (type(e).__name__, e), detail=traceback.format_exc(limit=-5))
        return
    finally:
        if stub is not None:
            yd.yaml = stub._real
    # ---- comparison ------------------------------------------------------------------------------
    ok = sorted(back.domains) == sorted(dcop.domains) and all(
        list(back.domains[d].values) == list(dcop.domains[d].values) for d in dcop.domains)
    eng.prove(ok, "domains differ after the round trip", detail=str({d: list(v.values) for d, v in back.domains.items()}))
    ok = sorted(back.variables) == sorted(dcop.variables) and all(
        back.variables[v].domain.name == dcop.variables[v].domain.name and
        _same_val(back.variables[v].initial_value, dcop.variables[v].initial_value) for v in dcop.variables)
    eng.prove(ok, "variables (domain / initial value) differ after the round trip",
              detail=str({v: (x.domain.name, x.initial_value) for v, x in back.variables.items()}))
    eng.prove(sorted(back.constraints) == sorted(dcop.constraints), "constraint names differ after the round trip")
    conds = []
    for cn, c in dcop.constraints.items():
        c2 = back.constraints.get(cn)
        if c2 is None:
            continue
        if sorted(v.name for v in c.dimensions) != sorted(v.name for v in c2.dimensions):
            conds.append(False)
            continue
        for combo in itertools.product(*[list(v.domain.values) for v in c.dimensions]):
            a = {v.name: x for v, x in zip(c.dimensions, combo)}
            conds.append(_eq(c(**a), c2(**a)))
    eng.prove(F.and_(conds) if conds else True, "a constraint has a different value on some assignment after the round trip")
    conds = [sorted(back.agents) == sorted(agents)]
    for a, ad in agents.items():
        b = back.agents.get(a)
        if b is None:
            continue
        conds.append(("capacity" in ad.extra_attr()) == ("capacity" in b.extra_attr()))
        if "capacity" in ad.extra_attr() and "capacity" in b.extra_attr():
            conds.append(_eq(ad.capacity, b.capacity))
        for other in agts + ["zz"]:
            conds.append(_eq(ad.route(other), b.route(other)))
        for comp in names + ["c0", "nope"]:
            conds.append(_eq(ad.hosting_cost(comp), b.hosting_cost(comp)))
    eng.prove(F.and_(conds), "an agent has a different capacity / route cost / hosting cost after the round trip")


def _same_val(a, b):
    return type(a) is type(b) and a == b


def _eq(a, b):
    if is_sym(a) or is_sym(b):
        return F.eq(a, b)
    if isinstance(a, (int, float)) and isinstance(b, (int, float)) and not isinstance(a, bool):
        return a == b
    return a == b
