"""C04 -- a cycle with no MGM/MGM2 move means the assignment is 1-opt."""
from harness.common import region, F
from harness.mgm_common import run_mgm, global_states, outcome
from symex.catalogue import spec

EXPLANATION = ("Same real MGM/MGM2 runs as C03. Oracle: whenever S_k+1 == S_k (a complete cycle in which no variable changed), "
               "for every variable v and every domain value d, cost(S_k) is not worse than cost(S_k[v:=d]) -- one query per path.")
ASSUMPTIONS = [
    "costs are integers in [-2^40, 2^40]; numpy storage replaced by object arrays",
    "mgm-pair-real jobs: costs are decimals k / 10^7 in [0, 1] (k a symbolic integer), arithmetic exact (no float noise); round(x, n) "
    "is the nearest multiple of 10^-n (ties upwards), computed in integer arithmetic on k",
    "random draws arbitrary (explored exhaustively); arbitrary initial assignment",
    "delivery model: per-channel FIFO interleavings, sleep-set reduced; canonical schedule where stated",
]
BOUNDS = {
    "quick": "MGM: pair (also with break_mode=random, with entries that are either symbolic or infinite, and with 7-decimal fractional entries) (all schedules), pair with two constraints and own cost tables on both variables (second table pinned to 0), chain-3 (canonical schedule), min and max; MGM2: pair, chain-3 pinned to the witness tables of the committed-tie finding; stop_cycle 3",
    "thorough": "quick + MGM triangle, star-3, ternary; chain-3 all schedules; bug hunting only (cpu budget): MGM2 chain-3 with symbolic tables",
}
OUTSIDE = "more than 4 variables, domain above 2, cycles beyond the third (inductive reading through arbitrary initial values; "\
          "state carried across cycles such as MGM's cached cost is exercised by cycles 2 and 3 only)"
CAP_S = {"quick": 1200, "thorough": 10800}


def jobs(tier):
    out = []
    for mode in ("min", "max"):
        out.append({"name": "mgm-pair-%s" % mode, "algo": "mgm", "spec": spec("pair", mode), "stop": 3})
        out.append({"name": "mgm-chain3-fixed-%s" % mode, "algo": "mgm", "spec": spec("chain3", mode), "stop": 3, "upfront": True,
                    "fixed": True})
        # own cost tables on both variables, two constraints over the same pair (tables of the second constraint and the
        # initial assignment pinned to keep the job small)
        # hard constraints: every entry is either a finite symbolic cost or an infinite one (+inf when minimising,
        # -inf when maximising)
        out.append({"name": "mgm-pair-hard-%s" % mode, "algo": "mgm", "spec": spec("pair", mode), "stop": 3,
                    "kinds": ["sym", "inf" if mode == "min" else "-inf"]})
        # real-valued costs in [0, 1] (gains with many decimals)
        out.append({"name": "mgm-pair-real-%s" % mode, "algo": "mgm", "spec": spec("pair", mode), "stop": 3,
                    "real": "dec7", "range": (0, 1)})
        # non-default tie-break parameter
        out.append({"name": "mgm-pair-breakrandom-%s" % mode, "algo": "mgm", "spec": spec("pair", mode), "stop": 3,
                    "params": {"break_mode": "random"}})
        out.append({"name": "mgm-pairdblvcost-%s" % mode, "algo": "mgm", "stop": 3, "upfront": True,
                    "spec": spec("pair_dbl_vcost2", mode, pins={"c1_00": 0, "c1_01": 0, "c1_10": 0, "c1_11": 0})})
        out.append({"name": "mgm2-pair-%s" % mode, "algo": "mgm2", "spec": spec("pair", mode), "stop": 3, "upfront": True})
        if mode == "min":
            # the listed MGM2 committed-tie finding, pinned to its recorded witness tables (all random choices explored)
            out.append({"name": "mgm2-chain3-tie-witness-min", "algo": "mgm2", "stop": 3, "upfront": True, "fixed": True,
                        "spec": spec("chain3", "min", pins={"c0_00": 0, "c0_01": 1, "c0_10": 0, "c0_11": 0,
                                                            "c1_00": 2, "c1_01": 2, "c1_10": 0, "c1_11": -2})})
        if tier == "thorough":
            for s in ("triangle", "star3", "ternary"):
                out.append({"name": "mgm-%s-%s" % (s, mode), "algo": "mgm", "spec": spec(s, mode), "stop": 3, "upfront": True,
                            "fixed": s != "ternary"})
            out.append({"name": "mgm-chain3-allsched-%s" % mode, "algo": "mgm", "spec": spec("chain3", mode), "stop": 3,
                        "upfront": True})
            # > 10^6 paths: bug hunting only
            out.append({"name": "mgm2-chain3-%s" % mode, "algo": "mgm2", "spec": spec("chain3", mode), "stop": 3, "upfront": True,
                        "fixed": True, "hunt_cpu_s": 2400})
    return out


_TIES = []


def _watch_committed_ties():
    """Records (non forking) every gain phase in which a committed MGM2 computation's gain ties with another neighbour's."""
    from pydcop.algorithms.mgm2 import Mgm2Computation
    if getattr(Mgm2Computation._handle_gain_messages, "_verif_wrapped", False):
        return
    orig = Mgm2Computation._handle_gain_messages

    def wrapped(self):
        if self._committed and self._partner is not None:
            others = [g for n, g in self._neighbors_gains.items() if n != self._partner.name]
            if others:
                _TIES.append(F.and_(F.ne(self._potential_gain, 0), F.eq(self._potential_gain, F.max_(others))))
        return orig(self)
    wrapped._verif_wrapped = True
    Mgm2Computation._handle_gain_messages = wrapped


def _cost(inst, asg):
    """Total cost; a concrete float infinity as soon as one term is infinite (entries are never of opposite infinities)."""
    terms = []
    for cname, scope in inst.scopes.items():
        terms.append(inst.tables[cname][tuple(inst.domains[v].index(asg[v]) for v in scope)])
    for v, costs in inst.vcosts.items():
        terms.append(costs[asg[v]])
    infs = [t for t in terms if isinstance(t, float) and t in (float("inf"), float("-inf"))]
    if infs:
        return infs[0]
    return F.sum(terms) if terms else 0


def _not_worse(a, b, mode):
    ia = isinstance(a, float) and a in (float("inf"), float("-inf"))
    ib = isinstance(b, float) and b in (float("inf"), float("-inf"))
    if ia or ib:
        if ia and ib:
            return True
        if mode == "min":
            return ib if not ia else False          # finite <= +inf ; +inf <= finite is false
        return ib if not ia else False              # max: finite >= -inf ; -inf >= finite is false
    return F.le(a, b) if mode == "min" else F.ge(a, b)


def regions(eng, r, p):
    inst = r["inst"]
    # known finding: MGM2 computes gains as current - best, negative for improvements in max mode, but lets the largest gain move
    regs = region(eng, "C04-mgm2-max-gain-sign", p["algo"] == "mgm2" and inst.mode == "max")
    # known finding: a committed pair needs a strictly larger gain than its other neighbours, while an uncommitted neighbour
    # with the same gain defers to a lexically smaller name: on such a tie nobody moves
    regs += region(eng, "C04-mgm2-committed-tie", p["algo"] == "mgm2" and bool(_TIES) and F.or_(list(_TIES)))
    return regs


def run(eng, p):
    del _TIES[:]
    if p["algo"] == "mgm2":
        _watch_committed_ties()
    r = run_mgm(eng, p)
    inst = r["inst"]
    regs = regions(eng, r, p)
    eng.notes["outcome"] = outcome(r)
    if r["exc"]:
        eng.fail("exception %s: %s" % (type(r["exc"][0]).__name__, r["exc"][0]), detail=r["exc"][1])
        return
    states = global_states(r)
    cmp = F.le if inst.mode == "min" else F.ge
    conds = []
    for k in range(len(states) - 1):
        a, b = states[k], states[k + 1]
        if a != b:
            continue
        base = _cost(inst, a)
        for v in inst.var_names():
            for d in inst.domains[v]:
                if d != a[v]:
                    alt = dict(a)
                    alt[v] = d
                    conds.append(_not_worse(base, _cost(inst, alt), inst.mode))
    eng.prove(F.and_(conds) if conds else True, "a complete cycle without any move ended on an assignment that is not 1-opt",
              regions=regs, detail=str(states))
