"""C04 -- a cycle with no MGM/MGM2 move means the assignment is 1-opt."""
from harness.common import region, F
from harness.mgm_common import run_mgm, global_states, outcome
from symex.catalogue import spec

EXPLANATION = ("Same real MGM/MGM2 runs as C03. Oracle: whenever S_k+1 == S_k (a complete cycle in which no variable changed), "
               "for every variable v and every domain value d, cost(S_k) is not worse than cost(S_k[v:=d]) -- one query per path.")
ASSUMPTIONS = [
    "costs are integers in [-2^40, 2^40]; numpy storage replaced by object arrays",
    "random draws arbitrary (explored exhaustively); arbitrary initial assignment",
    "delivery model: per-channel FIFO interleavings, sleep-set reduced; canonical schedule where stated",
]
BOUNDS = {
    "quick": "MGM: pair (all schedules), chain-3 (canonical schedule), min and max; MGM2: pair; stop_cycle 3",
    "thorough": "quick + MGM triangle, star-3, ternary; MGM2 chain-3; chain-3 all schedules",
}
OUTSIDE = "more than 4 variables, domain above 2, cycles beyond the third (inductive reading through arbitrary initial values; "\
          "state carried across cycles such as MGM's cached cost is exercised by cycles 2 and 3 only)"
CAP_S = {"quick": 1200, "thorough": 10800}


def jobs(tier):
    out = []
    for mode in ("min", "max"):
        out.append({"name": "mgm-pair-%s" % mode, "algo": "mgm", "spec": spec("pair", mode), "stop": 3})
        out.append({"name": "mgm-chain3-fixed-%s" % mode, "algo": "mgm", "spec": spec("chain3", mode), "stop": 3, "upfront": True,
                    "fixed": True})
        out.append({"name": "mgm2-pair-%s" % mode, "algo": "mgm2", "spec": spec("pair", mode), "stop": 3, "upfront": True})
        if tier == "thorough":
            for s in ("triangle", "star3", "ternary"):
                out.append({"name": "mgm-%s-%s" % (s, mode), "algo": "mgm", "spec": spec(s, mode), "stop": 3, "upfront": True,
                            "fixed": s != "ternary"})
            out.append({"name": "mgm-chain3-allsched-%s" % mode, "algo": "mgm", "spec": spec("chain3", mode), "stop": 3,
                        "upfront": True})
            out.append({"name": "mgm2-chain3-%s" % mode, "algo": "mgm2", "spec": spec("chain3", mode), "stop": 3, "upfront": True,
                        "fixed": True})
    return out


def regions(eng, r, p):
    inst = r["inst"]
    # known finding: MGM2 computes gains as current - best, negative for improvements in max mode, but lets the largest gain move
    return region(eng, "C04-mgm2-max-gain-sign", p["algo"] == "mgm2" and inst.mode == "max")


def run(eng, p):
    r = run_mgm(eng, p)
    inst = r["inst"]
    regs = regions(eng, r, p)
    eng.notes["outcome"] = outcome(r)
    if r["exc"]:
        eng.fail("exception %s: %s" % (type(r["exc"][0]).__name__, r["exc"][0]), regions=regs, detail=r["exc"][1])
        return
    states = global_states(r)
    cmp = F.le if inst.mode == "min" else F.ge
    conds = []
    for k in range(len(states) - 1):
        a, b = states[k], states[k + 1]
        if a != b:
            continue
        base = inst.cost(a)
        for v in inst.var_names():
            for d in inst.domains[v]:
                if d != a[v]:
                    alt = dict(a)
                    alt[v] = d
                    conds.append(cmp(base, inst.cost(alt)))
    eng.prove(F.and_(conds) if conds else True, "a complete cycle without any move ended on an assignment that is not 1-opt",
              regions=regs, detail=str(states))
