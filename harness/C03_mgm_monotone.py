"""C03 -- MGM and MGM2 never worsen the global cost between cycles."""
from harness.common import region, F
from harness.mgm_common import run_mgm, global_states, outcome
from symex.catalogue import spec

EXPLANATION = ("Real MgmComputation / Mgm2Computation objects on the real constraints hyper-graph, symbolic cost tables and "
               "variable cost tables, arbitrary initial values, offerer coin / partner / tie choices and the delivery order "
               "all solver-chosen. S_k = values held when each computation's cycle counter became k (schedule-independent); "
               "oracle: cost(S_k+1) never worse than cost(S_k), and no two constraint-sharing variables change between S_k and "
               "S_k+1 unless they are MGM2 partners.")
ASSUMPTIONS = [
    "costs are integers in [-2^40, 2^40]; numpy storage replaced by object arrays",
    "random.uniform/random() arbitrary reals in range, random.choice arbitrary element",
    "arbitrary initial assignment makes each cycle an inductive step: only value, cached cost and per-cycle dicts cross a cycle boundary",
    "delivery model: per-channel FIFO interleavings, sleep-set reduced (handlers touch only their own computation)",
]
BOUNDS = {
    "quick": "MGM: pair (also with break_mode=random), chain-3 (min/max), pair with variable cost, pair with two constraints and own costs on both variables; MGM2: pair (min/max); stop_cycle 3; all schedules and start orders on pairs, one canonical schedule on chain-3",
    "thorough": "quick + MGM: chain-3 with all schedules, triangle, star-3, ternary, chain-3 with variable cost; MGM2: chain-3, pair with variable cost, triangle (stop_cycle 2)",
}
OUTSIDE = "more than 4 variables, domain above 2, more than 3 cycles per run (covered inductively through arbitrary initial values)"
CAP_S = {"quick": 1200, "thorough": 10800}


def jobs(tier):
    out = []
    for mode in ("min", "max"):
        out.append({"name": "mgm-pair-%s" % mode, "algo": "mgm", "spec": spec("pair", mode), "stop": 3})
        out.append({"name": "mgm-chain3-fixed-%s" % mode, "algo": "mgm", "spec": spec("chain3", mode), "stop": 3, "upfront": True,
                    "fixed": True})
        if tier == "thorough":
            out.append({"name": "mgm-chain3-allsched-%s" % mode, "algo": "mgm", "spec": spec("chain3", mode), "stop": 3,
                        "upfront": True})
        out.append({"name": "mgm-pairvcost-%s" % mode, "algo": "mgm", "spec": spec("pair_vcost", mode), "stop": 3})
        # costs above 2**53 (exact as Python ints, not as floats)
        out.append({"name": "mgm-pair-bigint-%s" % mode, "algo": "mgm", "spec": spec("pair", mode), "stop": 3,
                    "range": (0, 2 ** 54 - 4)})
        # non-default tie-break parameter
        out.append({"name": "mgm-pair-breakrandom-%s" % mode, "algo": "mgm", "spec": spec("pair", mode), "stop": 3,
                    "params": {"break_mode": "random"}})
        out.append({"name": "mgm-pairdblvcost-%s" % mode, "algo": "mgm", "stop": 3, "upfront": True,
                    "spec": spec("pair_dbl_vcost2", mode, pins={"c1_00": 0, "c1_01": 0, "c1_10": 0, "c1_11": 0})})
        out.append({"name": "mgm2-pair-%s" % mode, "algo": "mgm2", "spec": spec("pair", mode), "stop": 3, "upfront": True})
        if mode == "min":
            # the two listed MGM2 findings, pinned to their recorded witness tables (all random choices still explored)
            out.append({"name": "mgm2-chain3-witness-min", "algo": "mgm2", "stop": 3, "upfront": True, "fixed": True,
                        "spec": spec("chain3", "min", pins={"c0_00": 0, "c0_01": 0, "c0_10": 0, "c0_11": 2,
                                                            "c1_00": 2, "c1_01": 2, "c1_10": 2, "c1_11": 1})})
            out.append({"name": "mgm2-pairvcost-witness-min", "algo": "mgm2", "stop": 3, "upfront": True, "fixed": True,
                        "spec": spec("pair_vcost", "min", pins={"vc_x_0": 0, "vc_x_1": 2, "c0_00": 0, "c0_01": 0,
                                                                "c0_10": 0, "c0_11": -1})})
        if tier == "thorough":
            for s in ("triangle", "star3", "ternary", "chain3_vcost"):
                out.append({"name": "mgm-%s-%s" % (s, mode), "algo": "mgm", "spec": spec(s, mode), "stop": 3, "upfront": True})
            out.append({"name": "mgm2-chain3-fixed-%s" % mode, "algo": "mgm2", "spec": spec("chain3", mode), "stop": 3, "upfront": True,
                        "fixed": True})
            out.append({"name": "mgm2-pairvcost-%s" % mode, "algo": "mgm2", "spec": spec("pair_vcost", mode), "stop": 3,
                        "upfront": True})
            out.append({"name": "mgm2-triangle-fixed-%s" % mode, "algo": "mgm2", "spec": spec("triangle", mode), "stop": 2,
                        "upfront": True, "fixed": True})
    return out


def run(eng, p):
    r = run_mgm(eng, p)
    inst = r["inst"]
    mgm2 = p["algo"] == "mgm2"
    # known findings (active only while listed as open in known_findings.json):
    #  * MGM2 ignores variable cost tables altogether
    #  * MGM2's coordinated gain counts the shared constraint twice (unit tests pin that arithmetic)
    reg_vc = region(eng, "C03-mgm2-varcost", mgm2 and bool(inst.vcosts))
    reg_coord = region(eng, "C03-mgm2-coordinated-gain", mgm2 and not inst.vcosts)
    eng.notes["outcome"] = outcome(r)
    if r["exc"]:
        eng.fail("exception %s: %s" % (type(r["exc"][0]).__name__, r["exc"][0]), detail=r["exc"][1])
        return
    states = global_states(r)
    cmp = F.le if inst.mode == "min" else F.ge
    mono_plain, mono_coord, excl = [], [], True
    bad_pair = None
    for k in range(len(states) - 1):
        a, b = states[k], states[k + 1]
        if any(v not in inst.domains[n] for n, v in list(a.items()) + list(b.items())):
            eng.fail("value outside the domain", detail=str((a, b)))
            return
        movers = [n for n in a if a[n] != b[n]]
        # a committed partner may keep its own value: the cycle is coordinated as soon as one mover was committed
        coordinated = any(r["partners"][m].get(k + 1) for m in movers)
        for i, m in enumerate(movers):
            for m2 in movers[i + 1:]:
                if m2 in r["adj"][m]:
                    if r["partners"][m].get(k + 1) == m2 and r["partners"][m2].get(k + 1) == m:
                        coordinated = True
                    else:
                        excl, bad_pair = False, (k, m, m2)
        (mono_coord if coordinated else mono_plain).append(cmp(inst.cost(b), inst.cost(a)))
    eng.prove(F.and_(mono_plain) if mono_plain else True, "global cost got worse between two completed cycles",
              regions=reg_vc, detail=str(states))
    eng.prove(F.and_(mono_coord) if mono_coord else True,
              "global cost got worse in a cycle containing a coordinated MGM2 move", regions=reg_vc + reg_coord,
              detail=str(states))
    eng.prove(excl, "two constraint-sharing variables changed in the same cycle without being MGM2 partners",
              detail=str((bad_pair, states)))
