"""C18 -- agent messaging delivers each message once, by priority, FIFO per sender (sequential histories)."""
import traceback

from harness.common import begin, F

EXPLANATION = ("(A) the real Messaging + InProcessCommunicationLayer + Discovery are driven through every history of <= 6 "
               "operations {post(sender, destination, type), register the late destination, next_msg, shutdown}; message types "
               "(priorities) are SYMBOLIC integers, so the heap's tuple comparisons fork on them. (B) a real Agent (no thread) "
               "gets <= 4 posts with symbolic types, then clean_shutdown(), then its _run loop is executed synchronously; "
               "(D) the _run loop runs first and a second actor posts / requests the clean shutdown at solver-chosen poll points. "
               "Oracle: every message posted before shutdown is handed over exactly once; at each hand-over the message has the "
               "lowest type among those queued, and among equal types of the same (sender, destination) the earliest posted; "
               "messages to the late destination are kept and delivered in order after its registration.")
ASSUMPTIONS = [
    "SEQUENTIAL histories only: posts from concurrent threads racing inside post_msg (unlocked msg_queue_count += 1) are outside the claim",
    "message types are integers in [0, 40]; 2 senders, 2 destinations (one registered late)",
    "time.sleep rebound to a no-op in pydcop.infrastructure.agents / communication (timing is not observed)",
]
BOUNDS = {"quick": "(A) histories of <= 4 operations over 6 operation kinds; histories of <= 8 operations {post, single hand-over} between one sender and one destination with one symbolic type, (B) <= 3 posts, (D) <= 2 posts over <= 2 polls before the shutdown, (E) <= 2 messages waiting for a computation added to the running agent", "thorough": "(A) histories of <= 5 operations, (B) <= 4 posts, (D) <= 3 posts over <= 3 polls, (E) <= 3 waiting messages"}
OUTSIDE = "thread interleavings inside post_msg/next_msg, the HTTP transport, remote destinations"
CAP_S = {"quick": 900, "thorough": 7200}


def jobs(tier):
    return [{"name": "messaging-histories", "kind": "A", "length": 4 if tier == "quick" else 5},
            # long histories of posts between one sender and one destination, all with the same (symbolic) type, and single
            # hand-overs: backlog, partial drain, more posts (the sequence number alone orders the queue)
            {"name": "backlog-same-type", "kind": "A", "length": 8 if tier == "quick" else 10, "ops": ["post_s0_d0", "next"],
             "one_type": True},
            # messages that compare equal (same type, same content): each one is still a message of its own
            {"name": "messaging-histories-equal", "kind": "A", "length": 4 if tier == "quick" else 5, "equal_content": True,
             "ops": ["post_s0_d0", "post_s0_d1", "register_d1", "next"], "one_type": True},
            # two computations that both register late and write to each other before being registered
            {"name": "two-late-computations", "kind": "C", "length": 6 if tier == "quick" else 7},
            {"name": "agent-clean-shutdown", "kind": "B", "posts": 3 if tier == "quick" else 4},
            # the agent loop is already running (it may have polled an empty queue) when another thread posts and then asks
            # for the clean shutdown: the other thread acts between two polls of the loop
            # a computation is added to a running agent while messages for it are waiting: the agent's thread may handle
            # the re-queued messages as soon as the registration has been announced
            {"name": "agent-late-add", "kind": "E", "posts": 2 if tier == "quick" else 3},
            {"name": "agent-running-shutdown", "kind": "D", "posts": 2 if tier == "quick" else 3, "polls": 2 if tier == "quick" else 3}]


def _check_pop(eng, popped, queued, what):
    """popped = (src, dst, idx, type); queued = other entries still in the (model) queue."""
    conds = []
    for (s, d, i, t) in queued:
        if s == popped[0] and d == popped[1] and i < popped[2]:
            conds.append(F.lt(popped[3], t))
        else:
            conds.append(F.le(popped[3], t))
    eng.prove(F.and_(conds) if conds else True, what)


def run(eng, p):
    begin(eng, numpy_facade=False)
    import pydcop.infrastructure.agents as agents_mod
    import pydcop.infrastructure.communication as comm_mod
    agents_mod.sleep = lambda *_: None
    comm_mod.sleep = lambda *_: None
    if p["kind"] == "A":
        return run_messaging(eng, p)
    if p["kind"] == "C":
        return run_two_late(eng, p)
    if p["kind"] == "D":
        return run_agent_running(eng, p)
    if p["kind"] == "E":
        return run_agent_late_add(eng, p)
    return run_agent(eng, p)


def _tok(Message, idx, p):
    """Message number idx; with p['equal_content'] all messages compare equal (same type and content), told apart by .idx only."""
    m = Message("tok", "same" if p.get("equal_content") else idx)
    m.idx = idx
    return m


def run_messaging(eng, p):
    from pydcop.infrastructure.communication import InProcessCommunicationLayer, Messaging
    from pydcop.infrastructure.discovery import Discovery
    from pydcop.infrastructure.computations import Message
    comm = InProcessCommunicationLayer()
    comm.discovery = Discovery("a1", "addr1")
    m = Messaging("a1", comm)
    for c in ("s0", "s1", "d0"):
        m.discovery.register_computation(c, "a1")
    late_registered, shut = False, False
    queue, waiting, posted, delivered, hist = [], [], [], [], []
    n = eng.choose(p["length"], "length") + 1
    ops = p.get("ops") or ["post_s0_d0", "post_s1_d0", "post_s0_d1", "register_d1", "next", "shutdown"]
    shared_type = eng.sym_int("type_all", 0, 40) if p.get("one_type") else None
    try:
        for step in range(n + 1):
            final = step == n
            op = "final" if final else ops[eng.choose(len(ops), "op_%d" % step)]
            hist.append(op)
            if op.startswith("post"):
                _, s, d = op.split("_")
                t = shared_type if shared_type is not None else eng.sym_int("type_%d" % len(posted), 0, 40)
                idx = len(posted)
                entry = (s, d, idx, t)
                posted.append((entry, shut))
                m.post_msg(s, d, _tok(Message, idx, p), t)
                if not shut:
                    if d == "d1" and not late_registered:
                        waiting.append(entry)
                    else:
                        queue.append(entry)
            elif op in ("register_d1", "final"):
                if not late_registered:
                    late_registered = True
                    m.discovery.register_computation("d1", "a1")
                    if not shut:
                        queue.extend(waiting)
                    elif waiting:
                        # retried after shutdown: the statement promises delivery of what was posted before a CLEAN shutdown
                        # only for queued messages; kept messages are re-posted through post_msg, which drops them
                        pass
                    waiting_now = list(waiting)
                    waiting[:] = []
                    if shut:
                        eng.notes["dropped_after_shutdown"] = [w[2] for w in waiting_now]
            if op == "shutdown":
                shut = True
                m.shutdown()
            if op in ("next", "final"):
                while True:
                    full, _t = m.next_msg(0)
                    if full is None:
                        break
                    src, dst, msg, typ = full
                    match = [e for e in queue if e[2] == msg.idx]
                    if not match or match[0][0] != src or match[0][1] != dst:
                        eng.fail("a message was handed over that is not queued (duplicate or wrong routing)",
                                 detail=str((hist, src, dst, msg.idx)))
                        return
                    queue.remove(match[0])
                    delivered.append(msg.idx)
                    _check_pop(eng, match[0], queue, "hand-over order violates priority / per-sender FIFO")
                    if op == "next":
                        break
        eng.notes["outcome"] = {"history": hist, "delivered": delivered}
        eng.prove(not queue, "message(s) posted before shutdown never handed over", detail=str((hist, [e[:3] for e in queue])))
        eng.prove(len(set(delivered)) == len(delivered), "a message was handed over twice", detail=str((hist, delivered)))
    except Exception as e:
        eng.notes["outcome"] = {"history": hist, "exc": str(e)}
        eng.fail("exception %s: %s" % (type(e).__name__, e), detail=traceback.format_exc(limit=-4))


def run_two_late(eng, p):
    """Computations A and B both register late; messages A->B and B->A posted before (and after) their registration must all
    be handed over exactly once, FIFO per (sender, destination), once the destination is registered."""
    from pydcop.infrastructure.communication import InProcessCommunicationLayer, Messaging
    from pydcop.infrastructure.discovery import Discovery
    from pydcop.infrastructure.computations import Message
    comm = InProcessCommunicationLayer()
    comm.discovery = Discovery("a1", "addr1")
    m = Messaging("a1", comm)
    registered = set()
    posted, delivered, hist = [], [], []
    n = eng.choose(p["length"], "length") + 1
    ops = ["post_A_B", "post_B_A", "register_A", "register_B", "next"]
    try:
        for step in range(n + 1):
            final = step == n
            op = "final" if final else ops[eng.choose(len(ops), "op_%d" % step)]
            hist.append(op)
            if op.startswith("post"):
                _, s, d = op.split("_")
                posted.append((s, d, len(posted)))
                m.post_msg(s, d, Message("tok", len(posted) - 1), 20)
            elif op.startswith("register") or final:
                for c in ([op[-1]] if not final else ["A", "B"]):
                    if c not in registered:
                        registered.add(c)
                        m.discovery.register_computation(c, "a1")
            if op in ("next", "final"):
                while True:
                    full, _t = m.next_msg(0)
                    if full is None:
                        break
                    src, dst, msg, typ = full
                    delivered.append((src, dst, msg.content))
                    if op == "next":
                        break
        eng.notes["outcome"] = {"history": hist, "delivered": delivered}
        eng.prove(sorted(delivered) == sorted(posted), "a message posted to a late computation was lost or handed over twice",
                  detail=str((hist, posted, delivered)))
        for pair in (("A", "B"), ("B", "A")):
            seq = [i for s, d, i in delivered if (s, d) == pair]
            eng.prove(seq == sorted(seq), "messages of one sender to one late destination handed over out of order",
                      detail=str((hist, delivered)))
    except Exception as e:
        eng.notes["outcome"] = {"history": hist, "exc": str(e)}
        eng.fail("exception %s: %s" % (type(e).__name__, e), detail=traceback.format_exc(limit=-4))


def run_agent(eng, p):
    from pydcop.infrastructure.agents import Agent
    from pydcop.infrastructure.communication import InProcessCommunicationLayer
    from pydcop.infrastructure.computations import MessagePassingComputation, Message, register
    handled = []

    class Probe(MessagePassingComputation):
        @register("tok")
        def _h(self, s, msg, t):
            handled.append((s, self.name, msg.content))
    agent = Agent("a1", InProcessCommunicationLayer())
    comps = {n: Probe(n) for n in ("c0", "c1")}
    for c in comps.values():
        agent.add_computation(c)
        c.start()
    queue, hist = [], []
    n = eng.choose(p["posts"], "n_posts") + 1
    try:
        for i in range(n):
            s, d = [("c0", "c1"), ("c1", "c0"), ("c0", "c0")][eng.choose(3, "route_%d" % i)]
            t = eng.sym_int("type_%d" % i, 0, 40)
            agent._messaging.post_msg(s, d, Message("tok", i), t)
            queue.append((s, d, i, t))
            hist.append((s, d))
        agent.run_computations = False
        agent.clean_shutdown()
        # dropped silently: posted after the clean shutdown
        agent._messaging.post_msg("c0", "c1", Message("tok", 99), 20)
        agent._run()
    except Exception as e:
        eng.notes["outcome"] = {"history": hist, "exc": str(e)}
        eng.fail("exception %s: %s" % (type(e).__name__, e), detail=traceback.format_exc(limit=-4))
        return
    eng.notes["outcome"] = {"history": hist, "handled": handled}
    eng.prove(sorted(h[2] for h in handled) == list(range(n)), "clean shutdown did not handle every queued message exactly once",
              detail=str((hist, handled)))
    remaining = list(queue)
    for s, d, i in handled:
        e = [x for x in remaining if x[2] == i]
        if not e:
            continue
        remaining.remove(e[0])
        _check_pop(eng, e[0], remaining, "agent loop handled messages against priority / per-sender FIFO order")


def run_agent_running(eng, p):
    """Agent._run executed synchronously; a second actor (posts, then clean_shutdown) acts at the loop's poll points."""
    from pydcop.infrastructure.agents import Agent
    from pydcop.infrastructure.communication import InProcessCommunicationLayer
    from pydcop.infrastructure.computations import MessagePassingComputation, Message, register
    log = []

    class Probe(MessagePassingComputation):
        @register("tok")
        def _h(self, s, msg, t):
            log.append(("handle", msg.content))
    agent = Agent("a1", InProcessCommunicationLayer())
    for n in ("c0", "c1"):
        c = Probe(n)
        agent.add_computation(c)
        c.start()
    agent.run_computations = False
    messaging = agent._messaging
    real_next = messaging.next_msg
    state = {"posts": 0, "polls": 0, "down": False}

    def next_msg(timeout=0):
        # the other thread runs here, between two polls
        while not state["down"]:
            can_post = state["posts"] < p["posts"]
            must_stop = state["polls"] >= p["polls"]
            opts = (["post"] if can_post else []) + ["shutdown"] + ([] if must_stop else ["poll"])
            op = opts[eng.choose(len(opts), "op_%d_%d" % (state["polls"], state["posts"]))] if len(opts) > 1 else opts[0]
            if op == "poll":
                break
            if op == "post":
                i = state["posts"]
                state["posts"] += 1
                s, d = [("c0", "c1"), ("c1", "c0")][eng.choose(2, "route_%d" % i)]
                t = eng.sym_int("type_%d" % i, 0, 40)
                messaging.post_msg(s, d, Message("tok", i), t)
                log.append(("post", (s, d, i, t)))
            else:
                agent.clean_shutdown()
                state["down"] = True
                log.append(("shutdown", None))
        state["polls"] += 1
        if state["polls"] > p["polls"] + p["posts"] + 4:
            raise RuntimeError("agent loop still polling %d polls after the clean shutdown" % state["polls"])
        return real_next(timeout)
    messaging.next_msg = next_msg
    try:
        agent._run()
    except Exception as e:
        eng.notes["outcome"] = {"log": str(log), "exc": str(e)}
        eng.fail("exception %s: %s" % (type(e).__name__, e), detail=traceback.format_exc(limit=-4))
        return
    eng.notes["outcome"] = {"log": [(k, v if k != "post" else v[:3]) for k, v in log]}
    posted = [v for k, v in log if k == "post"]
    handled = [v for k, v in log if k == "handle"]
    eng.prove(state["down"] and not agent.is_running, "agent loop ended without a shutdown request", detail=str(log))
    eng.prove(sorted(handled) == [v[2] for v in posted], "clean shutdown did not handle every queued message exactly once",
              detail=str(eng.notes["outcome"]))
    remaining = []
    for k, v in log:
        if k == "post":
            remaining.append(v)
        elif k == "handle":
            e = [x for x in remaining if x[2] == v]
            if e:
                remaining.remove(e[0])
                _check_pop(eng, e[0], remaining, "agent loop handled messages against priority / per-sender FIFO order")


def run_agent_late_add(eng, p):
    """Messages wait for a computation that is then added to the (running) agent; the agent thread is given the chance to
    handle messages at the point where add_computation announces the registration."""
    from pydcop.infrastructure.agents import Agent
    from pydcop.infrastructure.communication import InProcessCommunicationLayer
    from pydcop.infrastructure.computations import MessagePassingComputation, Message, register
    log = []

    class Probe(MessagePassingComputation):
        @register("tok")
        def _h(self, s, msg, t):
            log.append(("handle", msg.content))
    agent = Agent("a1", InProcessCommunicationLayer())
    c0 = Probe("c0")
    agent.add_computation(c0)
    c0.start()
    agent.run_computations = False
    messaging = agent._messaging
    n = eng.choose(p["posts"], "n_posts") + 1
    posted = []
    try:
        for i in range(n):
            t = eng.sym_int("type_%d" % i, 0, 40)
            messaging.post_msg("c0", "c2", Message("tok", i), t)
            posted.append(("c0", "c2", i, t))
            log.append(("post", posted[-1]))

        def loop_step():
            full, t = messaging.next_msg(0)
            if full is not None:
                sender, dest, msg, _ = full
                agent._handle_message(sender, dest, msg, t)
        real_reg = agent.discovery.register_computation

        def reg(*a, **k):
            r = real_reg(*a, **k)
            for _ in range(eng.choose(n + 1, "agent_thread_steps_during_add")):
                loop_step()
            return r
        agent.discovery.register_computation = reg
        late = Probe("c2")
        late.start()        # already started: a hand-over is a handler call (holding before start is C19's subject)
        agent.add_computation(late)
        agent.discovery.register_computation = real_reg
        agent.clean_shutdown()
        agent._run()
    except Exception as e:
        eng.notes["outcome"] = {"log": str(log), "exc": str(e)}
        eng.fail("exception %s: %s" % (type(e).__name__, e), detail=traceback.format_exc(limit=-4))
        return
    handled = [v for k, v in log if k == "handle"]
    eng.notes["outcome"] = {"handled": handled, "posted": n}
    eng.prove(sorted(handled) == list(range(n)), "messages kept for a late computation were not all handled exactly once",
              detail=str(eng.notes["outcome"]))
    remaining = list(posted)
    for v in handled:
        e = [x for x in remaining if x[2] == v]
        if e:
            remaining.remove(e[0])
            _check_pop(eng, e[0], remaining, "messages kept for a late computation were handled against priority / posting order")
