"""Shared driver for MGM / MGM2 runs (C03, C04, C07)."""
import traceback

from harness.common import begin, build_computations, region, Bench, F
from symex.catalogue import Instance, spec, BIG


def adjacency(inst):
    adj = {v: set() for v in inst.var_names()}
    for sc in inst.scopes.values():
        for a in sc:
            for b in sc:
                if a != b:
                    adj[a].add(b)
    return adj


def run_mgm(eng, p):
    """Runs the algorithm; returns a dict with per-computation per-cycle snapshots."""
    algo = p["algo"]
    begin(eng, random_modules=["pydcop.algorithms." + algo, "pydcop.dcop.relations",
                               "pydcop.infrastructure.computations"])
    if eng.symbolic:
        # float() in the algorithm modules (absent from the unchanged code): float64 image of the symbolic number
        import importlib
        from symex import shims
        shims.install_float_round53(importlib.import_module("pydcop.algorithms." + algo))
    if algo == "mgm2":
        from pydcop.algorithms.mgm2 import Mgm2Computation
        Mgm2Computation._compute_cost.cache_clear()
    lo, hi = p.get("range", (-BIG, BIG))
    inst = Instance(eng, p["spec"], lo=lo, hi=hi, entry_kinds=p.get("kinds"), real=p.get("real") or False)
    params = {"stop_cycle": p["stop"]}
    params.update(p.get("params", {}))
    cg, comps = build_computations(inst.dcop, algo, inst.mode, params)
    bench = Bench(eng, sleep_sets=p.get("sleep", True))
    bench.fixed_schedule = bool(p.get("fixed"))
    if p.get("free_targets"):
        bench.free_targets = set(p["free_targets"])
    for c in comps:
        bench.add(c)
    snaps = {c.name: [] for c in comps}
    partners = {c.name: {} for c in comps}      # cycle index (1-based, cycle being left) -> partner name

    def on_cycle(name, count):
        snaps[name].append(bench.comps[name].current_value)
    bench.on_cycle = on_cycle

    def on_select(name, val, cost, cycle):
        comp = bench.comps[name]
        if algo == "mgm2" and getattr(comp, "_committed", False) and getattr(comp, "_partner", None) is not None:
            partners[name][len(snaps[name])] = comp._partner.name
    bench.on_select = on_select
    exc = None
    status = None
    try:
        if p.get("upfront"):
            bench.start_all()
        status = bench.run(max_steps=p.get("max_steps", 150))
    except Exception as e:
        exc = (e, traceback.format_exc(limit=-5))
    return {"inst": inst, "bench": bench, "status": status, "snaps": snaps, "partners": partners, "exc": exc,
            "comps": comps, "adj": adjacency(inst)}


def global_states(r):
    """S_k = {name: value when its cycle counter became k}; only k reached by every non-isolated computation."""
    inst, snaps, bench = r["inst"], r["snaps"], r["bench"]
    active = [n for n in snaps if r["adj"][n]]
    if not active:
        return []
    depth = min(len(snaps[n]) for n in active)
    out = []
    for k in range(depth):
        st = {}
        for n in snaps:
            if n in active:
                st[n] = snaps[n][k]
            else:
                st[n] = bench.comps[n].current_value
        out.append(st)
    return out


def outcome(r):
    return {"status": r["status"], "snaps": r["snaps"], "finished": sorted(r["bench"].finished),
            "exc": None if not r["exc"] else str(r["exc"][0])}
