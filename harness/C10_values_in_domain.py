"""C10 -- every value an algorithm selects lies in the variable's domain."""
import traceback

from harness.common import begin, build_computations, region, Bench, F
from symex.catalogue import Instance, spec, BIG

ALGOS = ["dpop", "syncbb", "mgm", "mgm2", "dsa", "adsa", "dsatuto", "dba", "gdba", "maxsum", "amaxsum"]

EXPLANATION = ("One generic harness instantiated for the 11 shipped algorithms: real computations on the real graph model of each "
               "algorithm, symbolic cost tables (and symbolic noise draws), random choices and (where stated) all FIFO "
               "schedules; a monitor on the value_selection funnel checks every reported value: unset or a member of the domain.")
ASSUMPTIONS = [
    "costs are integers in [-2^40, 2^40] (reals for maxsum/amaxsum; DBA/GDBA: entries in {0, infinity}); numpy storage replaced by object arrays",
    "random draws arbitrary in their documented range (noise draws: symbolic reals in [0, noise]); periodic actions (A-DSA) fired on a canonical timing",
    "runs are cut after the stated number of transitions; a handler exception ends the path (exceptions are judged by C07/C01..., here only selections)",
    "str-valued domains, with values distinct from one variable to the next, are used so that neither a number nor a neighbour's value can be mistaken for a domain value",
]
BOUNDS = {
    "quick": "11 algorithms x {lone variable with a unary constraint, pair, pair with a single-value domain, pair+isolated variable (last / in the middle of the lexical order), pair with a unary constraint (thorough only for mgm2, maxsum, dsa)} (+ chain-3 for dpop/syncbb/mgm), domain 2 (str values, distinct per variable), min mode; canonical schedule, 40 transitions (16 for the never-ending synchronous ones: dsatuto, maxsum, amaxsum)",
    "thorough": "quick + max mode, all schedules on the pair, chain-3 for every algorithm, 60 transitions",
}
OUTSIDE = "more than 3 variables, domains above 2, runs beyond the transition budget, mixeddsa/ncbb/maxsum_dynamic (not in the property's list)"
CAP_S = {"quick": 1200, "thorough": 10800}


def jobs(tier):
    out = []
    for algo in ALGOS:
        # a lone variable with a unary constraint, a pair where one variable also has a unary constraint, ...
        structs = ["unary", "pair", "pair_iso"]
        if tier == "thorough" or algo not in ("mgm2", "dsatuto", "dsa"):
            structs.append("pair_isomid")
        if tier == "thorough" or algo not in ("mgm2", "maxsum", "dsa"):
            structs.append("pair_unary")
        if algo in ("dpop", "syncbb", "mgm") or (algo == "dsa" and tier == "thorough"):
            structs.append("chain3")
        # a pair whose first variable has a single-value domain (a fixed variable)
        out.append({"name": "%s-pair-fixedvar-min" % algo, "algo": algo, "fixed": True,
                    "spec": spec("pair", "min", dom={"x": 1, "y": 2}, domain_kind="own"),
                    "steps": 16 if algo in ("dsatuto", "maxsum", "amaxsum") else 40})
        for s in structs:
            steps = 16 if algo in ("dsatuto", "maxsum", "amaxsum") else 40
            if algo == "dsa" and s == "chain3":
                steps = 20
            out.append({"name": "%s-%s-min" % (algo, s), "algo": algo, "spec": spec(s, "min", domain_kind="own"),
                        "fixed": True, "steps": steps})
        if tier == "thorough":
            if algo != "dba":        # DBA rejects a max objective at construction
                out.append({"name": "%s-pair-max" % algo, "algo": algo, "spec": spec("pair", "max", domain_kind="own"),
                            "fixed": True, "steps": 60})
            out.append({"name": "%s-pair-min-allsched" % algo, "algo": algo, "spec": spec("pair", "min", domain_kind="own"),
                        "fixed": False, "steps": 30})
            if "chain3" not in structs:
                out.append({"name": "%s-chain3-min" % algo, "algo": algo, "spec": spec("chain3", "min", domain_kind="own"),
                            "fixed": True, "steps": 60})
    return out


def run(eng, p):
    algo = p["algo"]
    mods = ["pydcop.algorithms." + algo, "pydcop.infrastructure.computations", "pydcop.dcop.relations", "pydcop.dcop.objects"]
    if algo == "amaxsum":
        mods.append("pydcop.algorithms.maxsum")
    begin(eng, random_modules=mods, float_modules=["pydcop.algorithms.dpop"] if algo == "dpop" else [])
    if algo == "adsa":
        import pydcop.algorithms.adsa as _adsa
        _adsa.print = lambda *a, **k: None
    if algo == "mgm2":
        from pydcop.algorithms.mgm2 import Mgm2Computation
        Mgm2Computation._compute_cost.cache_clear()
    params = {}
    kinds, hard = None, None
    lo, hi = -BIG, BIG
    if algo in ("mgm", "mgm2", "dsa"):
        params = {"stop_cycle": 2 if (algo == "dsa" and len(p["spec"]["vars"]) > 2 and len(p["spec"]["cons"]) > 1) else 3}
    if algo in ("dba", "gdba"):
        kinds, hard = ["zero", "hard"], 10000
    if algo == "syncbb":
        lo = 0
    inst = Instance(eng, p["spec"], lo=lo, hi=hi, entry_kinds=kinds, hard_value=hard,
                    real=algo in ("maxsum", "amaxsum"))
    cg, comps = build_computations(inst.dcop, algo, inst.mode, params)
    bench = Bench(eng)
    bench.fixed_schedule = bool(p.get("fixed"))
    for c in comps:
        bench.add(c)
    bad = []

    def on_select(name, val, cost, cycle):
        dom = inst.domains.get(name)
        if dom is None:
            bad.append((name, "selection by a non-variable computation"))
        elif val is not None and not any(val is d or (type(val) is type(d) and val == d) for d in dom):
            bad.append((name, "value %r (%s) not in %s" % (val, type(val).__name__, dom)))
    bench.on_select = on_select
    exc = None
    try:
        if algo == "adsa":
            bench.ticks_enabled = False
            bench.start_all()
            for _ in range(3):
                for n in list(bench.comps):
                    if bench.ticks.get(n):
                        bench.fire(("tick", n))
                bench.run(max_steps=bench.steps + 12)
        else:
            bench.start_all()
            bench.run(max_steps=p["steps"])
    except Exception as e:
        exc = "%s: %s" % (type(e).__name__, e)
    finals = {n: c.current_value for n, c in bench.comps.items() if n in inst.domains}
    for n, v in finals.items():
        if v is not None and not any(v is d or (type(v) is type(d) and v == d) for d in inst.domains[n]):
            bad.append((n, "current_value %r not in domain" % (v,)))
    eng.notes["outcome"] = {"selections": len(bench.selections), "bad": [str(b) for b in bad], "exc": exc,
                            "finals": {k: str(v) for k, v in finals.items()}}
    eng.prove(not bad, "a selected value is neither unset nor a member of the variable's domain", detail=str(bad))
