"""Shared plumbing for the Engine-S harnesses."""
import importlib
import logging

from symex import shims
from symex.bench import Bench
from symex.engine import F, PathCut

_CUR = {"eng": None}
_RND = {}


def _get_eng():
    return _CUR["eng"]


def begin(eng, random_modules=(), float_modules=(), numpy_facade=True):
    """Called at the start of every path."""
    _CUR["eng"] = eng
    logging.disable(logging.CRITICAL)
    mods = [importlib.import_module(m) for m in random_modules]
    key = "sym" if eng.symbolic else "conc"
    if key not in _RND:
        _RND[key] = shims.SymRandom(_get_eng) if eng.symbolic else shims.ScriptedRandom(_get_eng)
    rnd = _RND[key]
    rnd.reset()
    done = _RND.setdefault("done_" + key, set())
    for m in mods:
        if m.__name__ not in done:
            shims.install_random(rnd, [m])
            done.add(m.__name__)
    if eng.symbolic:
        shims.install_math_shims()
        if numpy_facade:
            shims.install_numpy_facade()
        fdone = _RND.setdefault("fdone", set())
        for mn in float_modules:
            if mn not in fdone:
                shims.install_float_identity(importlib.import_module(mn))
                fdone.add(mn)
    return rnd


def build_computations(dcop, algo, mode, params=None, graph_module=None):
    """Build real computation objects exactly as an agent does."""
    from pydcop.algorithms import AlgorithmDef, ComputationDef, load_algorithm_module
    algo_module = load_algorithm_module(algo)
    gm = importlib.import_module("pydcop.computations_graph." + (graph_module or algo_module.GRAPH_TYPE))
    cg = gm.build_computation_graph(dcop)
    algo_def = AlgorithmDef.build_with_default_param(algo, params or {}, mode=mode)
    comps = []
    for node in cg.nodes:
        comps.append(algo_module.build_computation(ComputationDef(node, algo_def)))
    return cg, comps


def region(eng, fid, formula):
    """A known-finding region, active only when the finding is listed as open."""
    if fid in getattr(eng, "known_ids", ()):
        return [(fid, formula)]
    return []
