"""C23 -- distribution methods return valid mappings or declare impossibility."""
import importlib
import traceback

from harness.common import begin, region, F
from symex.catalogue import Instance, spec

EXPLANATION = ("oneagent, adhoc, heur_comhost and gh_cgdp distribute() are executed on real computation graphs with symbolic agent "
               "capacities, symbolic computation footprints (the computation_memory callback returns one symbolic number per "
               "node), hosting costs that are each zero or a positive symbolic number, symbolic routes, solver-chosen must_host "
               "hints and random draws. Oracle: a returned mapping hosts every computation exactly once on a declared agent, "
               "honours must_host hints and (capacity-aware methods) keeps the symbolic footprint sum within the symbolic "
               "capacity -- one query per path; otherwise the exception must be ImpossibleDistributionException.")
ASSUMPTIONS = [
    "capacities, footprints, hosting and route costs are reals in [0, 2^20] (the cost formulas mix float ratios with them; pure linear real arithmetic keeps z3 fast); message load between two computations is the constant 1 (keeps cost products linear)",
    "random.random()/choice arbitrary (explored); adhoc's shuffle of the node list is explored on the 2-computation graph and is the identity on larger ones",
    "ILP-based methods are not run here (no GLPK in the sandbox): their models are compared with the specification in C24",
]
BOUNDS = {"quick": "constraints hyper-graph of a pair (1-2 agents) and of chain-3 (2 agents), factor graph of a pair (2 agents); hosting cost of the first computation default / zero / positive; hints none / must_host of one computation (heur_comhost and gh_cgdp on the 3-computation graphs: hosting default / zero, no hint)",
          "thorough": "quick + triangle, 3 agents everywhere, host_with hints"}
OUTSIDE = "more than 3 agents / 4 computations, the distribute command line (file I/O), ILP methods' solve step"
CAP_S = {"quick": 900, "thorough": 5400}
LIM = 2 ** 20
CAPACITY_AWARE = {"adhoc", "heur_comhost", "gh_cgdp"}


def jobs(tier):
    out = []
    for method in ("oneagent", "adhoc", "heur_comhost", "gh_cgdp"):
        combos = [("hyper-pair", "dsa", "pair", 1), ("hyper-pair", "dsa", "pair", 2), ("hyper-chain3", "dsa", "chain3", 2),
                  ("factor-pair", "maxsum", "pair", 2)]
        if tier == "thorough":
            combos += [("hyper-pair", "dsa", "pair", 3), ("hyper-chain3", "dsa", "chain3", 3), ("factor-pair", "maxsum", "pair", 3)]
        for gname, algo, s, nag in combos:
            lite = tier == "quick" and not (s == "pair" and algo == "dsa") and method in ("heur_comhost", "gh_cgdp")
            out.append({"name": "%s-%s-a%d%s" % (method, gname, nag, "-lite" if lite else ""), "method": method, "algo": algo,
                        "struct": s, "agents": nag, "lite": lite})
    # two computations pinned on the same agent (zero hosting cost) plus a free one: the pinned load must add up
    out.append({"name": "gh_cgdp-hyper-chain3-a2-pin2", "method": "gh_cgdp", "algo": "dsa", "struct": "chain3", "agents": 2,
                "lite": True, "pin2": True})
    return out


def run(eng, p):
    method = p["method"]
    rnd = begin(eng, random_modules=["pydcop.distribution." + method])
    # adhoc re-shuffles the node list at each of its 4 attempts: explored on the 2-node graph only
    rnd.fixed_shuffle = (method == "adhoc" and not (p["struct"] == "pair" and p["algo"] == "dsa"))
    from pydcop.dcop.objects import AgentDef
    from pydcop.distribution.objects import DistributionHints, ImpossibleDistributionException
    from pydcop.algorithms import load_algorithm_module
    mod = importlib.import_module("pydcop.distribution." + method)
    inst = Instance(eng, spec(p["struct"], "min"), lo=0, hi=0)
    algo_module = load_algorithm_module(p["algo"])
    gm = importlib.import_module("pydcop.computations_graph." + algo_module.GRAPH_TYPE)
    cg = gm.build_computation_graph(inst.dcop)
    comps = [n.name for n in cg.nodes]
    foot = {c: eng.sym_real("foot_" + c, 0, LIM) for c in comps}
    agents = []
    hosting = {}
    for i in range(p["agents"]):
        an = "a%d" % i
        cap = eng.sym_real("cap_" + an, 0, LIM)
        hc = {}
        for c in (comps[:2] if (p.get("pin2") and i == 0) else comps[:1] if not p.get("pin2") else []):
            k = eng.pick(["default", "zero"] if p.get("lite") else ["default", "zero", "pos"], "host_%s_%s" % (an, c))
            if k == "zero":
                hc[c] = 0
            elif k == "pos":
                hc[c] = eng.sym_real("hc_%s_%s" % (an, c), 1, LIM)
        dh = eng.sym_real("dh_" + an, 1, LIM)
        routes = {"a%d" % j: eng.sym_real("route_%d_%d" % (min(i, j), max(i, j)), 1, LIM) for j in range(p["agents"]) if j != i}
        agents.append(AgentDef(an, capacity=cap, default_hosting_cost=dh, hosting_costs=hc, routes=routes, default_route=1))
        hosting[an] = hc
    hint_kind = "none" if p.get("lite") else eng.pick(["none", "must_host"], "hints")
    must = {}
    if hint_kind == "must_host":
        ag = "a%d" % eng.choose(p["agents"], "hint_agent")
        must = {ag: [comps[eng.choose(len(comps), "hint_comp")]]}
    hints = DistributionHints(must_host=must) if hint_kind != "none" else None
    eng.notes["outcome"] = {"method": method, "comps": comps, "agents": p["agents"], "must_host": must}
    caps = {a.name: a.capacity for a in agents}
    pinned = [(c, a.name) for c in comps for a in agents if c in hosting[a.name] and not is_pos(hosting[a.name][c])]
    regs = []           # kept for the evidence; each listed finding is attached to the one assertion it is about
    # listed findings: these methods document that hints are not used / adhoc places must_host computations without a capacity check
    regs += region(eng, "C23-hints-not-used", method in ("oneagent", "gh_cgdp", "heur_comhost") and bool(must))
    regs += region(eng, "C23-adhoc-must-host-capacity", method == "adhoc" and bool(must))
    try:
        dist = mod.distribute(cg, agents, hints=hints, computation_memory=lambda n: foot[n.name],
                              communication_load=lambda n, t: 1)
    except ImpossibleDistributionException:
        eng.prove(True, "declared impossible")
        return
    except Exception as e:
        eng.fail("%s.distribute crashed with %s: %s (neither a mapping nor ImpossibleDistributionException)"
                 % (method, type(e).__name__, e), detail=traceback.format_exc(limit=-4))
        return
    mapping = {a: list(dist.computations_hosted(a)) for a in dist.agents}
    eng.notes["outcome"]["mapping"] = mapping
    hosted = [c for cs in mapping.values() for c in cs]
    ok = sorted(hosted) == sorted(comps) and all(a in caps for a in mapping)
    eng.prove(ok, "%s returned a mapping that does not host every computation exactly once on a declared agent" % method,
              detail=str(mapping))
    if must:
        eng.prove(all(c in mapping.get(a, []) for a, cs in must.items() for c in cs),
                  "%s ignored a must_host hint" % method,
                  regions=region(eng, "C23-hints-not-used", method in ("oneagent", "gh_cgdp", "heur_comhost")),
                  detail=str((must, mapping)))
    if ok and method in CAPACITY_AWARE:
        conds = [F.le(F.sum([foot[c] for c in cs]), caps[a]) for a, cs in mapping.items() if cs]
        eng.prove(F.and_(conds) if conds else True, "%s exceeded an agent's capacity" % method,
                  regions=region(eng, "C23-adhoc-must-host-capacity", method == "adhoc" and bool(must)), detail=str(mapping))


def is_pos(x):
    return not (isinstance(x, int) and x == 0)
