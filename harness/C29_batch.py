"""C29 -- batch parameter expansion is an exact cartesian product."""
import itertools
import traceback

from harness.common import begin

EXPLANATION = ("regularize_parameters, parameters_configuration and build_option_for_parameters are executed on every parameter "
               "definition in the bound (the shape of the definition -- number of parameters, number of values, scalar / list / "
               "nested dict, value types -- is solver-chosen and exhausted); the oracle is itertools.product over the sorted keys "
               "and sorted string values, written independently. Discrete exploration: there is no numeric symbolic input.")
ASSUMPTIONS = ["values are ints / strs / bools drawn from small pools (including the falsy 0 and False) and distinct after str()", "one nested level of sub-parameters"]
BOUNDS = {"quick": "<= 3 parameters, each a scalar, a list of 1-3 values or a nested dict of <= 2 sub-parameters with 1-2 values; empty definitions included",
          "thorough": "<= 4 parameters"}
OUTSIDE = "deeper nesting, duplicate values, non str/int values"
CAP_S = {"quick": 600, "thorough": 3600}
POOL = [0, 0.0, "b", 10, "a"]       # 0 and 0.0 are equal but render differently ("0", "0.0")
SCALARS = [0, "b", 10, False]      # falsy scalars (0, False) are legitimate parameter values


def jobs(tier):
    return [{"name": "params-%d" % n, "n": n} for n in ([0, 1, 2, 3] if tier == "quick" else [0, 1, 2, 3, 4])]


def _values(eng, tag, maxn):
    kind = eng.pick(["scalar", "list"], "kind_" + tag)
    if kind == "scalar":
        return SCALARS[eng.choose(len(SCALARS), "val_" + tag)]
    n = eng.choose(maxn, "len_" + tag) + 1
    start = eng.choose(2, "start_" + tag)
    return [POOL[(start + i) % len(POOL)] for i in range(n)]


def run(eng, p):
    begin(eng, numpy_facade=False)
    from pydcop.commands.batch import regularize_parameters, parameters_configuration, build_option_for_parameters
    names = ["p2", "p10", "alpha", "z"][:p["n"]]
    definition = {}
    for nm in names:
        if eng.pick(["flat", "nested"], "shape_" + nm) == "flat":
            definition[nm] = _values(eng, nm, 3)
        else:
            k = eng.choose(3, "nsub_" + nm)
            definition[nm] = {"s%d" % i: _values(eng, "%s_s%d" % (nm, i), 2) for i in range(k)}
    eng.notes["outcome"] = {"definition": str(definition)}

    def norm(v):
        if isinstance(v, dict):
            return {k: norm(x) for k, x in v.items()}
        return sorted(str(i) for i in v) if isinstance(v, list) else [str(v)]

    def expand(d):
        keys = sorted(d)
        per = []
        for k in keys:
            v = norm(d[k])
            per.append(expand(v) if isinstance(v, dict) else v)
        return [dict(zip(keys, combo)) for combo in itertools.product(*per)]
    expected = expand(definition)
    try:
        got = parameters_configuration(regularize_parameters(definition))
        again = parameters_configuration(regularize_parameters(dict(reversed(list(definition.items())))))
    except Exception as e:
        eng.fail("expansion raised %s: %s" % (type(e).__name__, e), detail=str(definition) + traceback.format_exc(limit=-3))
        return
    eng.prove(got == expected, "expansion is not the cartesian product (one value per parameter, each combination once, sorted order)",
              detail=str((definition, got[:6], expected[:6])))
    eng.prove(got == again, "expansion order depends on the order in which parameters were given", detail=str(definition))
    for combo in got[:8]:
        opt = build_option_for_parameters(combo)
        toks = opt.split()
        exp = []
        for k, v in combo.items():
            if isinstance(v, dict):
                for sk, sv in v.items():
                    exp += ["--" + k, "%s:%s" % (sk, sv)]
            else:
                exp += ["--" + k, v]
        eng.prove(toks == exp, "command options do not render each chosen value exactly once", detail=str((combo, opt)))
