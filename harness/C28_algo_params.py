"""C28 -- algorithm parameters are validated and completed exactly."""
import traceback

from harness.common import begin

EXPLANATION = ("For every module returned by list_available_algorithms() the declared algo_params are read at run time; "
               "prepare_algo_params / AlgorithmDef.build_with_default_param / commands._utils.build_algo_def are executed on "
               "every combination in the bound of (subset of <= 2 declared parameters or an unknown one) x (value kind: valid, "
               "valid typed as string, other allowed value, invalid value, wrong type, garbage string). Oracle written from the "
               "AlgoParameterDef tuples: result keys == declared names, given values converted to the declared type and within "
               "the allowed values, defaults elsewhere, errors for unknown names / invalid values. Discrete exploration.")
ASSUMPTIONS = ["values come from per-type representative pools (no symbolic strings)",
               "an 'error' is ValueError/TypeError from the API and SystemExit or an exception from the CLI helper"]
BOUNDS = {"quick": "14 algorithm modules, subsets of <= 2 parameters, 11 value kinds (incl. an explicit zero, a bool given for a number and a valid value followed by ':more'), API dict form and CLI 'name:value' form",
          "thorough": "same (exhausted in quick)"}
OUTSIDE = "arbitrary strings, more than 2 parameters at once"
CAP_S = {"quick": 600, "thorough": 1800}

KINDS = ["valid", "valid_as_str", "other_allowed", "invalid_value", "wrong_type", "garbage_str", "default_as_str", "zero", "zero_as_str", "subclass", "extra_colon"]


def jobs(tier):
    import warnings
    warnings.filterwarnings("ignore")
    from pydcop.algorithms import list_available_algorithms
    return [{"name": a, "algo": a} for a in list_available_algorithms()]


def _candidate(pdef, kind):
    """(value, expected) where expected is ('ok', converted) or ('error',)."""
    t, allowed, default = pdef.type, pdef.values, pdef.default_value
    if kind == "extra_colon":
        # a valid value followed by ':' and more text (on the command line: 'name:value:more'): never a valid value
        if t == "str" and not allowed:
            return _candidate(pdef, "valid")          # a free-form string may contain ':' when given through the API
        base = "7" if t == "int" else "0.25" if t == "float" else str(allowed[0])
        return base + ":x", ("error",)
    if kind == "subclass":
        # a bool given for a number (bool is a subclass of int): converted to the declared type itself. (A str subclass given
        # for a string is rejected by the unchanged code as a type error, which the statement allows: not demanded.)
        if t == "str":
            return _candidate(pdef, "valid")
        conv = 1 if t == "int" else 1.0
        return True, (("ok", conv) if (not allowed or conv in allowed) else ("error",))
    if t == "str":
        good = allowed[0] if allowed else "anything"
        if kind in ("valid", "valid_as_str", "default_as_str"):
            v = good if kind != "default_as_str" else default
            return v, ("ok", v)
        if kind == "other_allowed":
            v = allowed[-1] if allowed else "else"
            return v, ("ok", v)
        if kind == "invalid_value":
            return "not_a_value", (("error",) if allowed else ("ok", "not_a_value"))
        if kind == "wrong_type":
            return 5, ("error",)
        if allowed:
            # a near miss: an allowed value in the other letter case
            near = str(allowed[0]).swapcase()
            return (near, ("error",)) if near not in allowed else ("gar bage", ("error",))
        return "gar bage", ("ok", "gar bage")
    if t in ("int", "float") and kind in ("zero", "zero_as_str"):
        z = 0 if t == "int" else 0.0
        return (z if kind == "zero" else "0"), ("ok", z)
    if t == "str" and kind in ("zero", "zero_as_str"):
        kind = "valid"
    if t == "int":
        if kind == "valid":
            return 7, ("ok", 7)
        if kind == "valid_as_str":
            return "7", ("ok", 7)
        if kind == "default_as_str":
            return str(default), ("ok", default)
        if kind == "other_allowed":
            return 0, ("ok", 0)
        if kind == "invalid_value":
            return "7.5", ("error",)
        if kind == "wrong_type":
            return None, ("error",)
        return "abc", ("error",)
    if t == "float":
        if kind == "valid":
            return 0.25, ("ok", 0.25)
        if kind == "valid_as_str":
            return "0.25", ("ok", 0.25)
        if kind == "default_as_str":
            return str(default), ("ok", default)
        if kind == "other_allowed":
            return 1, ("ok", 1.0)
        if kind == "invalid_value":
            return "1,5", ("error",)
        if kind == "wrong_type":
            return None, ("error",)
        return "abc", ("error",)
    return None, ("error",)


def run(eng, p):
    begin(eng, numpy_facade=False)
    import warnings
    warnings.filterwarnings("ignore")
    from pydcop.algorithms import load_algorithm_module, prepare_algo_params, AlgorithmDef
    from pydcop.commands._utils import build_algo_def
    algo = p["algo"]
    mod = load_algorithm_module(algo)
    defs = list(getattr(mod, "algo_params", []))
    by = {d.name: d for d in defs}
    given, expect_error = {}, False
    expected = {d.name: d.default_value for d in defs}
    n = eng.choose(3, "n_given")
    names = [d.name for d in defs]
    chosen = []
    for i in range(n):
        opts = [x for x in names if x not in chosen] + ["no_such_param"]
        nm = opts[eng.choose(len(opts), "param_%d" % i)]
        if nm in chosen:
            continue
        chosen.append(nm)
        if nm == "no_such_param":
            given[nm] = "1"
            expect_error = True
            continue
        kind = KINDS[eng.choose(len(KINDS), "kind_%d" % i)]
        v, exp = _candidate(by[nm], kind)
        given[nm] = v
        if exp[0] == "error":
            expect_error = True
        else:
            expected[nm] = exp[1]
    form = eng.pick(["api", "algodef", "cli"], "form")
    if form == "cli" and any(not isinstance(v, str) for v in given.values()):
        form = "api"
    eng.notes["outcome"] = {"algo": algo, "given": str(given), "form": form}
    try:
        if form == "api":
            got = prepare_algo_params(dict(given), defs)
        elif form == "algodef":
            got = dict(AlgorithmDef.build_with_default_param(algo, dict(given), mode="min").params)
        else:
            got = dict(build_algo_def(mod, algo, "min", ["%s:%s" % kv for kv in given.items()]).params)
    except (ValueError, TypeError, SystemExit, KeyError) as e:
        eng.prove(expect_error, "valid parameters were rejected (%s: %s)" % (type(e).__name__, e), detail=str((algo, given, form)))
        return
    except Exception as e:
        eng.fail("parameter preparation crashed with %s: %s" % (type(e).__name__, e), detail=traceback.format_exc(limit=-4))
        return
    eng.prove(not expect_error, "an unknown parameter or an invalid value was accepted", detail=str((algo, given, got)))
    if not expect_error:
        same = set(got) == set(expected) and all(got[k] == expected[k] and type(got[k]) is type(expected[k]) for k in expected)
        eng.prove(same, "prepared parameters are not exactly the declared ones with converted values and defaults",
                  detail=str((algo, given, got, expected)))
