"""C30 -- problem and scenario generators produce well-formed instances."""
import itertools
import traceback
import types

from harness.common import begin, region, F

EXPLANATION = ("(a) generate_scenario with random.sample replaced by an arbitrary k-subset (explored): every event removes exactly "
               "the requested number of distinct, not yet removed agents. (b) graph colouring: generate_hard_constraints / "
               "generate_soft_constraints and generate() on solver-chosen graphs (edge presence chosen; the networkx random graph "
               "generators are replaced by a stub returning that graph), soft costs are symbolic ints in [0,9]: one constraint per "
               "edge, hard tables 1000 on equal colours else 0. (c) Ising: generate_ising on grids 2x2..3x3 with the same "
               "couplings in extensive and intentional form: both forms agree on every assignment and the variable / factor-graph "
               "distributions host each computation exactly once.")
ASSUMPTIONS = [
    "random.sample / randint / uniform / shuffle are stubs returning arbitrary values of their range (couplings of the Ising intentional form are chosen in a representative set because they are formatted into an expression string)",
    "the real networkx random-graph generators, argument parsing and file output are not exercised",
]
BOUNDS = {"quick": "scenario: <= 5 agents, <= 3 events, <= 2 removals per event; colouring: all graphs on <= 4 vertices, 2-3 colours, hard/soft, extensional/intentional; Ising: 2x2, 2x3, 3x3 grids",
          "thorough": "same + 3x4 grid"}
OUTSIDE = "networkx random graph generators, CLI parsing, YAML output files, larger grids"
CAP_S = {"quick": 900, "thorough": 3600}


def jobs(tier):
    out = [{"name": "scenario", "kind": "scenario"},
           {"name": "coloring-constraints", "kind": "coloring"},
           {"name": "coloring-generate", "kind": "coloring_generate"}]
    # (11, 2) and (2, 11): two-digit coordinates (v_10_0 sorts before v_9_0 as a string)
    grids = [(2, 2), (2, 3), (3, 3), (11, 2), (2, 11)] + ([(3, 4)] if tier == "thorough" else [])
    for r, c in grids:
        out.append({"name": "ising-%dx%d" % (r, c), "kind": "ising", "rows": r, "cols": c})
    return out


def run(eng, p):
    kind = p["kind"]
    try:
        if kind == "scenario":
            return run_scenario(eng)
        if kind == "coloring":
            return run_coloring(eng)
        if kind == "coloring_generate":
            return run_coloring_generate(eng)
        return run_ising(eng, p)
    except Exception as e:
        from symex.engine import PathCut
        eng.fail("generator raised %s: %s" % (type(e).__name__, e), detail=traceback.format_exc(limit=-5))


def run_scenario(eng):
    begin(eng, random_modules=["pydcop.commands.generators.scenario"], numpy_facade=False)
    from pydcop.commands.generators.scenario import generate_scenario
    n_agents = eng.pick([3, 4, 5], "n_agents")
    evts = eng.pick([1, 2, 3], "events")
    acts = eng.pick([1, 2], "actions")
    if evts * acts > n_agents:
        from symex.engine import PathCut
        raise PathCut()
    agents = ["a%d" % i for i in range(n_agents)]
    sc = generate_scenario(evts, acts, 10, 5, 5, agents)
    removed, ok, why = [], True, None
    n_events = 0
    for ev in sc.events:
        if ev.is_delay:
            continue
        n_events += 1
        names = [a.args["agent"] for a in ev.actions if a.type == "remove_agent"]
        if len(names) != acts or len(set(names)) != acts or any(n in removed or n not in agents for n in names):
            ok, why = False, (ev.id, names, removed)
        removed += names
    eng.notes["outcome"] = {"removed": removed}
    eng.prove(ok and n_events == evts, "an event does not remove the requested number of distinct, not yet removed agents",
              detail=str((why, n_events, evts)))


def _choose_graph(eng, n):
    import networkx as nx
    g = nx.Graph()
    g.add_nodes_from(range(n))
    for a, b in itertools.combinations(range(n), 2):
        if eng.choose(2, "edge_%d_%d" % (a, b)):
            g.add_edge(a, b)
    return g


def run_coloring(eng):
    begin(eng, random_modules=["pydcop.commands.generators.graphcoloring"])
    import pydcop.commands.generators.graphcoloring as gc
    from pydcop.dcop.objects import Variable, VariableDomain
    n = eng.pick([2, 3, 4], "n")
    g = _choose_graph(eng, n)
    ncol = eng.pick([2, 3], "colors")
    dom = VariableDomain("colors", "color", gc.COLORS[:ncol])
    variables = {node: Variable("v%02d" % i, dom) for i, node in enumerate(sorted(g.nodes))}
    mode = eng.pick(["hard_ext", "hard_int", "soft"], "mode")
    if mode == "soft":
        cons = gc.generate_soft_constraints(g, variables, False)
    else:
        cons = gc.generate_hard_constraints(g, variables, mode == "hard_int")
    eng.notes["outcome"] = {"edges": list(g.edges), "mode": mode}
    scopes = sorted(tuple(sorted(v.name for v in c.dimensions)) for c in cons.values())
    exp = sorted(tuple(sorted((variables[a].name, variables[b].name))) for a, b in g.edges)
    eng.prove(scopes == exp, "not exactly one constraint per graph edge", detail=str((scopes, exp)))
    conds = []
    for c in cons.values():
        v1, v2 = c.dimensions
        for a in dom.values:
            for b in dom.values:
                val = c(**{v1.name: a, v2.name: b})
                if mode == "soft":
                    conds.append(F.and_(F.ge(val, 0), F.le(val, 9)))
                else:
                    conds.append(F.eq(val, 1000 if a == b else 0))
    eng.prove(F.and_(conds) if conds else True, "constraint tables are not hard (1000 on equal colours, else 0) / soft (0..9) as requested")


def run_coloring_generate(eng):
    begin(eng, random_modules=["pydcop.commands.generators.graphcoloring"])
    import pydcop.commands.generators.graphcoloring as gc
    n = eng.pick([2, 3, 4], "n")
    graph_kind = eng.pick(["random", "scalefree", "grid"], "graph")
    if graph_kind == "grid" and n != 4:
        from symex.engine import PathCut
        raise PathCut()
    g = _choose_graph(eng, n) if graph_kind != "grid" else None
    captured = {}
    orig = (gc.generate_random_graph, gc.generate_scalefree_graph, gc.dcop_yaml)
    gc.generate_random_graph = lambda *a, **k: g
    gc.generate_scalefree_graph = lambda *a, **k: g
    gc.dcop_yaml = lambda d: captured.setdefault("dcop", d) and "" or ""
    gc.print = lambda *a, **k: None
    try:
        args = types.SimpleNamespace(colors_count=eng.pick([2, 3], "colors"), graph=graph_kind, p_edge=0.5, m_edge=1,
                                     allow_subgraph=True, variables_count=n, noagents=eng.pick([False, True], "noagents"),
                                     soft=eng.pick([False, True], "soft"), intentional=False, output=None)
        gc.generate(args)
    finally:
        gc.generate_random_graph, gc.generate_scalefree_graph, gc.dcop_yaml = orig
    d = captured.get("dcop")
    if d is None:
        eng.fail("generate() produced no DCOP")
        return
    n_edges = len(g.edges) if g is not None else 4
    eng.notes["outcome"] = {"vars": sorted(d.variables), "constraints": len(d.constraints)}
    ok = (len(d.variables) == n and all(len(v.domain) == args.colors_count for v in d.variables.values())
          and len(d.constraints) == n_edges and len(d.agents) == (0 if args.noagents else n))
    eng.prove(ok, "generated colouring problem does not have the requested variables / colours / one constraint per edge / agents",
              detail=str((n, args.colors_count, n_edges, len(d.variables), len(d.constraints), len(d.agents))))


def run_ising(eng, p):
    rnd = begin(eng, random_modules=["pydcop.commands.generators.ising"])
    import pydcop.commands.generators.ising as ising
    rows, cols = p["rows"], p["cols"]
    # same couplings for both forms: replay one scripted sequence of uniform draws
    pool = [0.5, -1.5, 0.0, 2.0]
    draws = []

    class _U:
        def __init__(self):
            self.i = 0

        def uniform(self, a, b):
            if self.i >= len(draws):
                draws.append(pool[eng.choose(len(pool), "coupling_%d" % len(draws))] if len(draws) < 2 else pool[len(draws) % len(pool)])
            v = draws[self.i]
            self.i += 1
            return v
    orig_random = ising.random
    try:
        u = _U()
        ising.random = u
        d_ext, var_map, fg_map = ising.generate_ising(rows, cols, 2.0, 2.0, True, False, True, True)
        u.i = 0
        d_int, _, _ = ising.generate_ising(rows, cols, 2.0, 2.0, False, False, True, True)
    finally:
        ising.random = orig_random
    eng.notes["outcome"] = {"constraints": len(d_ext.constraints), "vars": len(d_ext.variables)}
    ok = sorted(d_ext.constraints) == sorted(d_int.constraints)
    why = None if ok else ("constraint names differ",)
    if ok:
        for name, c1 in d_ext.constraints.items():
            c2 = d_int.constraints[name]
            if sorted(v.name for v in c1.dimensions) != sorted(v.name for v in c2.dimensions):
                ok, why = False, ("scope of %s" % name,)
                break
            for vals in itertools.product([0, 1], repeat=len(c1.dimensions)):
                a = {v.name: x for v, x in zip(c1.dimensions, vals)}
                if abs(c1(**a) - c2(**a)) > 1e-12:
                    ok, why = False, (name, a, c1(**a), c2(**a))
    eng.prove(ok, "intentional and extensive Ising forms disagree", detail=str(why))
    comps_var = sorted(d_ext.variables)
    hosted_var = sorted(c for cs in var_map.values() for c in cs)
    eng.prove(hosted_var == comps_var, "Ising variable distribution does not host each variable exactly once",
              detail=str((hosted_var, comps_var)))
    comps_fg = sorted(list(d_ext.variables) + list(d_ext.constraints))
    hosted_fg = sorted(c for cs in fg_map.values() for c in cs)
    regs = region(eng, "C30-ising-fg-dist-size2", rows == 2 or cols == 2)
    eng.prove(hosted_fg == comps_fg, "Ising factor-graph distribution does not host each computation exactly once", regions=regs,
              detail=str(([c for c in set(hosted_fg) if hosted_fg.count(c) > 1], [c for c in comps_fg if c not in hosted_fg])))
