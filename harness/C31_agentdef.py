"""C31 -- agent definitions honour their cost model, also when mass-created."""
import itertools
import traceback

from harness.common import begin, F

EXPLANATION = ("AgentDef.route / hosting_cost / attribute access and create_agents are executed with symbolic route costs, "
               "default route, hosting costs, default hosting cost and capacity; which agents/computations have a specific "
               "entry, the queried names and the kind of index (list, range, tuple of lists) are solver-chosen. Oracle: the "
               "cost model of the statement; a mass-created agent equals, field by field, the individually built one.")
ASSUMPTIONS = ["costs are symbolic integers in [-2^20, 2^20]; names are drawn from small fixed sets of strings",
               "extra attributes: capacity (symbolic), a string attribute and attributes with unusual keyword names (_zone, Routes2, default, x=None)"]
BOUNDS = {"quick": "names in {a1,a2,a3}, computations in {c1,c2}; every subset of specific routes (incl. an entry for the agent itself) / hosting costs; index kinds list(2), range(1..3,11), tuple of two lists",
          "thorough": "same (the space is exhausted in quick)"}
OUTSIDE = "arbitrary strings as names (only a fixed small alphabet of names), float costs"
CAP_S = {"quick": 600, "thorough": 1800}
LIM = 2 ** 20


# extra attributes with unusual but legal keyword names
EXTRA = {"_zone": "kitchen", "Routes2": 3, "default": "d", "x": None}


def jobs(tier):
    return [{"name": "agentdef", "kind": "single"}, {"name": "create_agents", "kind": "mass"}]


def _args(eng):
    others, comps = ["a1", "a2", "a3"], ["c1", "c2"]      # a1 is the agent itself: a route table may list its owner
    routes = {o: eng.sym_int("route_" + o, -LIM, LIM) for o in others if eng.choose(2, "has_route_" + o)}
    hosting = {c: eng.sym_int("host_" + c, -LIM, LIM) for c in comps if eng.choose(2, "has_host_" + c)}
    dr = eng.sym_int("default_route", -LIM, LIM)
    dh = eng.sym_int("default_hosting", -LIM, LIM)
    cap = eng.sym_int("capacity", 0, LIM)
    return routes, hosting, dr, dh, cap


def _model(name, routes, hosting, dr, dh):
    def route(o):
        return 0 if o == name else routes.get(o, dr)

    def host(c):
        return hosting.get(c, dh)
    return route, host


def _same(a, b):
    return (a == b) if isinstance(a, str) or isinstance(b, str) else F.eq(a, b)


def run(eng, p):
    begin(eng, numpy_facade=False)
    from pydcop.dcop.objects import AgentDef, create_agents
    routes, hosting, dr, dh, cap = _args(eng)
    try:
        if p["kind"] == "single":
            name = "a1"
            a = AgentDef(name, default_route=dr, routes=dict(routes), default_hosting_cost=dh, hosting_costs=dict(hosting),
                         capacity=cap, foo="bar", **EXTRA)
            route, host = _model(name, routes, hosting, dr, dh)
            conds = [_same(a.route(o), route(o)) for o in ("a1", "a2", "a3", "zz")]
            conds += [_same(a.hosting_cost(c), host(c)) for c in ("c1", "c2", "c9")]
            conds += [getattr(a, k) == v for k, v in EXTRA.items()]
            conds += [sorted(a.extra_attr()) == sorted(["capacity", "foo"] + list(EXTRA))]
            conds += [_same(a.capacity, cap), a.foo == "bar", a.name == name, _same(a.default_hosting_cost, dh),
                      _same(a.default_route, dr)]
            eng.notes["outcome"] = {"routes": sorted(routes), "hosting": sorted(hosting)}
            eng.prove(F.and_(conds), "AgentDef does not honour its cost model (route to self 0 / specific / default; hosting specific / default; attributes)")
            try:
                a.not_an_attribute
                eng.fail("unknown attribute did not raise AttributeError")
            except AttributeError:
                pass
            return
        kind = eng.pick(["list", "range3", "range11", "tuple"], "index_kind")
        idx = {"list": ["1", "2"], "range3": range(3), "range11": range(9, 11), "tuple": (["a", "b"], ["1", "2"])}[kind]
        agents = create_agents("a", idx, default_route=dr, routes=dict(routes), default_hosting_costs=dh,
                               hosting_costs=dict(hosting), capacity=cap, foo="bar", **EXTRA)
        if kind == "list":
            expected = {"a1": "a1", "a2": "a2"}
        elif kind == "range3":
            expected = {"a0": "a0", "a1": "a1", "a2": "a2"}
        elif kind == "range11":
            expected = {"a09": "a09", "a10": "a10"}
        else:
            expected = {(x, y): "a" + x + "_" + y for x in "ab" for y in "12"}
        eng.notes["outcome"] = {"kind": kind, "keys": [str(k) for k in agents]}
        eng.prove(set(agents) == set(expected), "create_agents did not create one agent per index", detail=str(list(agents)))
        conds = []
        for key, name in expected.items():
            if key not in agents:
                continue
            got = agents[key]
            ref = AgentDef(name, default_route=dr, routes=dict(routes), default_hosting_cost=dh, hosting_costs=dict(hosting),
                           capacity=cap, foo="bar", **EXTRA)
            conds.append(got.name == ref.name)
            m_route, m_host = _model(name, routes, hosting, dr, dh)
            conds += [_same(got.route(o), m_route(o)) for o in ("a1", "a2", "a3", name)]       # the cost model itself
            conds += [_same(got.hosting_cost(c), m_host(c)) for c in ("c1", "c2", "c9")]
            conds += [_same(got.route(o), ref.route(o)) for o in ("a1", "a2", "a3", name)]
            conds += [_same(got.hosting_cost(c), ref.hosting_cost(c)) for c in ("c1", "c2", "c9")]
            conds.append(_same(got.default_hosting_cost, ref.default_hosting_cost))
            conds.append(_same(got.capacity, ref.capacity))
            conds.append(got.foo == ref.foo)
            conds += [getattr(got, k) == v for k, v in EXTRA.items()]
            conds.append(sorted(got.extra_attr()) == sorted(ref.extra_attr()))
        eng.prove(F.and_(conds), "a mass-created agent differs from the individually built agent with the same arguments",
                  detail=kind)
        # agents created without route / hosting tables: each must own its tables, like individually built ones (editing the
        # tables of one agent through its public properties must not change the costs of the others)
        plain = create_agents("a", idx, default_route=dr, default_hosting_costs=dh)
        keys = list(plain)
        if len(keys) >= 2:
            first, others = plain[keys[0]], [plain[k] for k in keys[1:]]
            first.hosting_costs["c1"] = dh + 1
            first.routes["zz"] = dr + 1
            conds = []
            for o in others:
                conds += [_same(o.hosting_cost("c1"), dh), _same(o.route("zz"), dr)]
            eng.prove(F.and_(conds), "mass-created agents share their route / hosting tables (editing one agent changed another)",
                      detail=kind)
    except Exception as e:
        eng.fail("exception %s: %s" % (type(e).__name__, e), detail=traceback.format_exc(limit=-4))
