"""C16 -- computation graphs faithfully mirror the DCOP."""
import itertools
import traceback

from harness.common import begin

EXPLANATION = ("The structure of the DCOP is the solver-chosen input: n variables, m constraints whose scopes are chosen among "
               "all non-empty subsets of size <= 3; the three real graph builders are run and compared with the definitions "
               "computed from the scopes. Each path fixes one structure, so exhausting the paths is exhausting the structures "
               "in the bound (the solver's role here is only to carry the structure as a reportable/replayable model).")
ASSUMPTIONS = ["constraints are neutral relations (values are irrelevant to graph construction)",
               "variable names of mixed lengths (v2, v10, x, ab, v1: lexical, length-first and numeric orders differ) inserted in a chosen order (as listed / reversed)"]
BOUNDS = {"quick": "n <= 3 variables with m <= 3 constraints, n = 4 with m <= 2; every scope of size <= 3; each constraint built either on the DCOP's Variable objects or on equal copies of them",
          "thorough": "n <= 4 variables, m <= 3 constraints (all scopes of size <= 3), n = 5 with m <= 2"}
OUTSIDE = "more than 5 variables / 3 constraints, scopes above 3, duplicate constraint names"
CAP_S = {"quick": 600, "thorough": 3600}


def jobs(tier):
    out = []
    combos = [(1, 1), (2, 2), (3, 3), (4, 2)] if tier == "quick" else [(1, 1), (2, 3), (3, 3), (4, 3), (5, 2)]
    for n, m in combos:
        for g in ("hyper", "factor", "ordered"):
            out.append({"name": "%s-n%d-m%d" % (g, n, m), "graph": g, "n": n, "m": m})
    return out


def run(eng, p):
    begin(eng, numpy_facade=False)
    from pydcop.dcop.dcop import DCOP
    from pydcop.dcop.objects import Domain, Variable
    from pydcop.dcop.relations import NeutralRelation
    n = p["n"]
    # names of different lengths, for which lexical order, length-first order and numeric order all differ
    names = ["v2", "v10", "x", "ab", "v1"][:n]
    if eng.pick(["lexical", "reversed"], "insertion") == "reversed":
        ins = list(reversed(names))
    else:
        ins = list(names)
    d = Domain("d", "", [0, 1])
    V = {nm: Variable(nm, d) for nm in names}
    dcop = DCOP("g", "min")
    for nm in ins:
        dcop.add_variable(V[nm])
    subsets = [list(c) for k in (1, 2, 3) for c in itertools.combinations(names, k)]
    m = eng.choose(p["m"] + 1, "n_constraints")
    scopes = {}
    for j in range(m):
        sc = subsets[eng.choose(len(subsets), "scope_%d" % j)]
        scopes["c%d" % j] = sc
        # a constraint may hold its own, equal, Variable objects (what loading two files, or building constraints apart
        # from the variables, gives)
        fresh = eng.pick(["shared_objects", "equal_copies"], "variable_objects_%d" % j) == "equal_copies"
        dcop.add_constraint(NeutralRelation([(Variable(v, d) if fresh else V[v]) for v in sc], name="c%d" % j))
    eng.notes["outcome"] = {"scopes": scopes, "insertion": ins}
    shares = {v: {u for sc in scopes.values() if v in sc for u in sc if u != v} for v in names}
    try:
        if p["graph"] == "hyper":
            import pydcop.computations_graph.constraints_hypergraph as g
            cg = g.build_computation_graph(dcop)
            nodes = {nd.name: nd for nd in cg.nodes}
            ok = sorted(nodes) == sorted(names)
            why = None if ok else ("nodes", sorted(nodes))
            for v in names:
                if not ok:
                    break
                nd = nodes[v]
                if sorted(c.name for c in nd.constraints) != sorted(c for c, sc in scopes.items() if v in sc):
                    ok, why = False, ("constraints of %s" % v, [c.name for c in nd.constraints])
                if sorted(nd.neighbors) != sorted(shares[v]) or len(set(nd.neighbors)) != len(list(nd.neighbors)):
                    ok, why = False, ("neighbors of %s" % v, list(nd.neighbors))
                if sorted(cg.neighbors(v)) != sorted(shares[v]):
                    ok, why = False, ("graph.neighbors(%s)" % v, list(cg.neighbors(v)))
            if ok:
                # the graph's links: one per constraint (also for constraints sharing their scope), each listed by its nodes
                glinks = list(cg.links)
                got = sorted((getattr(l, "name", None), tuple(sorted(l.nodes))) for l in glinks)
                want = sorted((c, tuple(sorted(sc))) for c, sc in scopes.items())
                if got != want:
                    ok, why = False, ("graph.links", got)
                for v in names:
                    if ok and any(l not in glinks for l in nodes[v].links):
                        ok, why = False, ("a link of node %s is not in graph.links" % v, None)
            eng.prove(ok, "constraints hyper-graph does not mirror the DCOP", detail=str((why, scopes)))
        elif p["graph"] == "factor":
            import pydcop.computations_graph.factor_graph as g
            cg = g.build_computation_graph(dcop)
            nodes = {nd.name: nd for nd in cg.nodes}
            ok = sorted(nodes) == sorted(names + list(scopes))
            why = None if ok else ("nodes", sorted(nodes))
            for v in names:
                if not ok:
                    break
                exp = sorted(c for c, sc in scopes.items() if v in sc)
                if sorted(nodes[v].neighbors) != exp or len(list(nodes[v].neighbors)) != len(exp):
                    ok, why = False, ("neighbors of variable %s" % v, list(nodes[v].neighbors))
            for c, sc in scopes.items():
                if not ok:
                    break
                if sorted(nodes[c].neighbors) != sorted(sc) or len(list(nodes[c].neighbors)) != len(sc):
                    ok, why = False, ("neighbors of factor %s" % c, list(nodes[c].neighbors))
            if ok:
                links = {(l.factor_node, l.variable_node) for l in cg.links}
                exp_links = {(c, v) for c, sc in scopes.items() for v in sc}
                if links != exp_links:
                    ok, why = False, ("links", sorted(links))
            eng.prove(ok, "factor graph is not the bipartite variable/constraint incidence graph", detail=str((why, scopes)))
        else:
            import pydcop.computations_graph.ordered_graph as g
            cg = g.build_computation_graph(dcop)
            nodes = {nd.name: nd for nd in cg.nodes}
            ok = sorted(nodes) == sorted(names)
            why = None if ok else ("nodes", sorted(nodes))
            srt = sorted(names)
            for i, v in enumerate(srt):
                if not ok:
                    break
                nxt = srt[i + 1] if i + 1 < len(srt) else None
                prv = srt[i - 1] if i > 0 else None
                if nodes[v].get_next() != nxt or nodes[v].get_previous() != prv:
                    ok, why = False, ("next/previous of %s" % v, nodes[v].get_next(), nodes[v].get_previous())
                if sorted(c.name for c in nodes[v].constraints) != sorted(c for c, sc in scopes.items() if v in sc):
                    ok, why = False, ("constraints of %s" % v,)
            eng.prove(ok, "ordered graph does not chain the variables in lexical order with consistent links",
                      detail=str((why, scopes)))
    except Exception as e:
        eng.fail("graph construction raised %s: %s" % (type(e).__name__, e), detail=traceback.format_exc(limit=-4))
