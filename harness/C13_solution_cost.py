"""C13 -- solution cost accounting matches the DCOP definition."""
import itertools

from harness.common import begin, F
from symex.catalogue import Instance, spec, BIG

EXPLANATION = ("DCOP.solution_cost / solution_cost / assignment_cost executed on DCOPs with symbolic constraint tables, "
               "symbolic variable cost tables, a symbolic (or float inf) infinity value and an external variable; oracle = "
               "(count of terms equal to infinity, sum of the others) written from the definition.")
ASSUMPTIONS = [
    "costs are integers in [-2^40, 2^40]; the infinity value is a symbolic integer in the same range or the concrete float inf",
    "external variables are attached the way the YAML loader does (dcop.external_variables / dcop._constraints)",
    "incomplete assignment = a strict subset of the declared variable names (no unknown extra keys)",
    "numpy storage replaced by dtype=object arrays",
]
BOUNDS = {
    "quick": "objective min (all structures) and max (pair, pair+variable cost); structures pair, chain-3, pair+variable cost, chain-3+variable cost, triangle, each optionally with one external variable bound by a binary constraint; every complete assignment (choice; evaluated a second time from the same dict after the external variable changed) and every non-empty set of missing variables (choice)",
    "thorough": "quick + ternary, star-3, domain 3",
}
OUTSIDE = "more than 4 variables + 1 external, float finite costs, assignments with unknown extra keys"
CAP_S = {"quick": 600, "thorough": 3600}


def jobs(tier):
    out = []
    structs = ["pair", "chain3", "pair_vcost", "chain3_vcost", "triangle", "single_vcost"]
    if tier == "thorough":
        structs += ["ternary", "star3", "ternary_bin"]
    for s in structs:
        for infk in ("symint", "float"):
            for ext in (False, True):
                if ext and s in ("single_vcost",):
                    continue
                out.append({"name": "%s-%s%s" % (s, infk, "-ext" if ext else ""), "spec": spec(s, "min"), "inf": infk, "ext": ext})
    # a DCOP whose objective is max: the accounting does not depend on the objective
    for s in ("pair", "pair_vcost"):
        for infk in ("symint", "float"):
            out.append({"name": "%s-max-%s" % (s, infk), "spec": spec(s, "max"), "inf": infk, "ext": False})
    if tier == "thorough":
        out.append({"name": "chain3-dom3-symint", "spec": spec("chain3", "min", dom=3), "inf": "symint", "ext": False})
    return out


def run(eng, p):
    begin(eng)
    from pydcop.dcop.objects import ExternalVariable, Domain
    from pydcop.dcop.relations import NAryMatrixRelation, assignment_cost
    import pydcop.dcop.dcop as dcop_mod
    if p["inf"] == "symint":
        infinity = eng.sym_int("infinity", -BIG, BIG)
        kinds = None
    else:
        infinity = float("inf")
        kinds = ["sym", "inf"]
    sp = p["spec"]
    pre = {v: eng.choose(n, "val_" + v) for v, n in sp["vars"].items()}      # int domains: index == value
    ext_pre = eng.pick([0, 1], "ext_value") if p["ext"] else None
    hot = {"%s_%s" % (cn, "".join(str(pre[v]) for v in sc)) for cn, sc in sp["cons"]}
    hot |= {"vc_%s_%d" % (v, pre[v]) for v in sp.get("varcosts", [])}
    if p["ext"]:
        hot.add("ce_%d%d" % (pre[list(sp["vars"])[0]], ext_pre))
    inst = Instance(eng, sp, entry_kinds=kinds, kind_filter=lambda n: n in hot)
    dcop = inst.dcop
    terms_for = []        # functions asg -> term
    ext_val = None
    if p["ext"]:
        ed = Domain("d_e", "", [0, 1])
        ev = ExternalVariable("e", ed, value=ext_pre)
        ext_val = ev.value
        first = inst.var_names()[0]
        tab = {(i, j): inst._entry("ce_%d%d" % (i, j), -BIG, BIG, kinds, None)
               for i in range(len(inst.domains[first])) for j in range(2)}
        rel = NAryMatrixRelation([inst.variables[first], ev],
                                 [[tab[(i, j)] for j in range(2)] for i in range(len(inst.domains[first]))], name="ce")
        dcop.external_variables = {"e": ev}
        dcop._constraints["ce"] = rel
    names = inst.var_names()
    asg = {v: inst.domains[v][pre[v]] for v in names}
    # terms, from the definition
    terms = []
    for cn, sc in inst.scopes.items():
        terms.append(inst.tables[cn][tuple(inst.domains[v].index(asg[v]) for v in sc)])
    if p["ext"]:
        terms.append(tab[(inst.domains[first].index(asg[first]), ext_val)])
    cons_terms = list(terms)
    for v in names:
        terms.append(inst.vcosts[v][asg[v]] if v in inst.vcosts else 0)
    if p["ext"]:
        terms.append(0)
    mode = eng.pick(["complete", "incomplete", "assignment_cost"], "mode")
    eng.notes["outcome"] = {"mode": mode, "asg": asg}
    if mode == "complete":
        mine = dict(asg)            # the caller's own dict, reused for the second call below
        hard, soft = dcop.solution_cost(mine, infinity)
        exp_hard = F.sum([F.ite(_is_inf(t, infinity), 1, 0) for t in terms])
        exp_soft = F.sum([F.ite(_is_inf(t, infinity), 0, t) if not _cinf(t) else 0 for t in terms])
        eng.prove(F.and_(F.eq(hard, exp_hard), F.eq(soft, exp_soft)),
                  "solution_cost != (count of terms equal to infinity, sum of the other terms)", detail=str(asg))
        eng.prove(mine == asg, "solution_cost modified the caller's assignment", detail=str((mine, asg)))
        if p["ext"]:
            # the external variable changes, the same assignment is evaluated again
            ev.value = 1 - ext_pre
            terms2 = list(terms)
            terms2[len(inst.scopes)] = tab[(inst.domains[first].index(asg[first]), ev.value)]
            hard2, soft2 = dcop.solution_cost(mine, infinity)
            exp_hard2 = F.sum([F.ite(_is_inf(t, infinity), 1, 0) for t in terms2])
            exp_soft2 = F.sum([F.ite(_is_inf(t, infinity), 0, t) if not _cinf(t) else 0 for t in terms2])
            eng.prove(F.and_(F.eq(hard2, exp_hard2), F.eq(soft2, exp_soft2)),
                      "solution_cost after a change of the external variable does not use its current value", detail=str(asg))
    elif mode == "incomplete":
        k = eng.choose(2 ** len(names) - 1, "missing") + 1
        missing = [v for i, v in enumerate(names) if (k >> i) & 1]
        part = {v: x for v, x in asg.items() if v not in missing}
        eng.notes["outcome"]["missing"] = missing
        try:
            res = dcop.solution_cost(part, infinity)
        except ValueError:
            eng.prove(True, "ok")
            return
        eng.fail("incomplete assignment accepted by solution_cost", detail="missing %s -> %s" % (missing, "result"))
    else:
        cons = list(dcop.constraints.values())
        with_vc = eng.pick([False, True], "consider_variable_cost")
        full = dict(asg)
        if p["ext"]:
            full["e"] = ext_val
        got = assignment_cost(full, cons, consider_variable_cost=with_vc)
        exp = F.sum(cons_terms)
        if with_vc:
            in_scope = {v for sc in inst.scopes.values() for v in sc}
            exp = exp + F.sum([inst.vcosts[v][asg[v]] for v in names if v in inst.vcosts and v in in_scope])
        eng.prove(_same(got, exp), "assignment_cost != sum of constraint values (+ variable costs when requested)",
                  detail=str(asg))


def _cinf(t):
    return isinstance(t, float) and t in (float("inf"), float("-inf"))


def _is_inf(t, infinity):
    if _cinf(t) or _cinf(infinity):
        return _cinf(t) and _cinf(infinity) and t == infinity
    return F.eq(t, infinity)


def _same(a, b):
    if _cinf(a) or _cinf(b):
        return _cinf(a) and _cinf(b) and a == b
    return F.eq(a, b)
