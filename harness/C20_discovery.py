"""C20 -- discovery views converge to the directory for subscribed items."""
import traceback

from harness.common import begin, Bench
from symex.engine import PathCut

EXPLANATION = ("A real Directory (+DirectoryComputation) and real Discovery/DiscoveryComputation objects of an observer agent and "
               "an actor agent are wired through the bench; a solver-chosen history of operations (the actor registers / "
               "unregisters itself, a computation and its replica, the observer subscribes / unsubscribes to the computation, its "
               "replicas and the actor agent) is interleaved with message deliveries in every per-channel-FIFO order; after the "
               "final drain the observer's view must equal the directory's for every item it is still subscribed to, and its "
               "callbacks must have fired when the view changed. Discrete exploration (no numeric symbolic input).")
ASSUMPTIONS = [
    "'delivered in any order' is read as: any interleaving across channels, FIFO within a (sender, receiver) channel",
    "one observer (a1), one actor (a2), one computation (c1) and its replica; agents pre-registered on the directory before the history starts",
    "operations that the API rejects locally (e.g. unregistering an unknown computation) are skipped",
]
BOUNDS = {"quick": "histories of <= 4 operations among 12 kinds (incl. the actor agent leaving and coming back), all interleavings with deliveries; per item kind (computation, replica, agent): histories of <= 4 operations with two callbacks of the observer on the same item (subscribe / unsubscribe each, item changes) after a drained prelude that makes the item known",
          "thorough": "histories of <= 5 operations (8.2 million interleaved paths)"}
OUTSIDE = "more agents / computations, agent removal with hosted computations, subscribe_all_agents"
CAP_S = {"quick": 900, "thorough": 7200}

OPS = ["sub_comp", "unsub_comp", "sub_rep", "unsub_rep", "sub_agent", "unsub_agent", "reg_comp", "unreg_comp", "reg_rep", "unreg_rep",
       "unreg_agent", "reg_agent"]


TWO_CB = {
    # several callbacks on the same item: a prelude (drained before the explored history) makes the item known, then the
    # history interleaves two subscriptions of the observer, their removal one by one, and changes of the item
    "rep": (["reg_comp", "reg_rep", "sub_comp"], ["sub_rep", "sub_rep2", "unsub_rep", "unsub_rep2", "unreg_rep", "reg_rep"]),
    "comp": (["reg_comp"], ["sub_comp", "sub_comp2", "unsub_comp", "unsub_comp2", "unreg_comp", "reg_comp"]),
    "agent": ([], ["sub_agent", "sub_agent2", "unsub_agent", "unsub_agent2", "unreg_agent", "reg_agent"]),
}


def jobs(tier):
    out = [{"name": "histories-%d" % n, "length": n} for n in ([4] if tier == "quick" else [4, 5])]
    for k, (prelude, ops) in TWO_CB.items():
        out.append({"name": "twocb-%s-%d" % (k, 4 if tier == "quick" else 5), "length": 4 if tier == "quick" else 5,
                    "prelude": prelude, "ops": ops})
    # the second callback is a one-shot one, subscribed while the item is already known (the directory's answer then
    # carries no change): it must still fire at the next real change
    out.append({"name": "oneshot-comp-4", "length": 4, "prelude": ["reg_comp", "sub_comp"], "oneshot2": True,
                "ops": ["sub_comp2", "unreg_comp", "reg_comp", "unsub_comp"]})
    out.append({"name": "oneshot-agent-4", "length": 4, "prelude": ["sub_agent"], "oneshot2": True,
                "ops": ["sub_agent2", "unreg_agent", "reg_agent", "unsub_agent"]})
    return out


def run(eng, p):
    begin(eng, numpy_facade=False)
    from pydcop.infrastructure.discovery import Discovery, Directory, UnknownComputation, UnknownAgent
    d_o = Discovery("o", "addr_o")
    directory = Directory(d_o)
    d1, d2 = Discovery("a1", "addr_a1"), Discovery("a2", "addr_a2")
    bench = Bench(eng, sleep_sets=False)
    bench.add(directory.directory_computation)
    for d in (d_o, d1, d2):
        bench.add(d.discovery_computation)
    for d in (d1, d2):
        d.use_directory("o", "addr_o")
    bench.start_all()
    d1.register_agent("a1", "addr_a1")
    d2.register_agent("a2", "addr_a2")
    bench.fixed_schedule = True
    bench.run(max_steps=50)
    bench.fixed_schedule = False
    events = []
    def _mk_cb(k):
        def cb(evt, item, val):
            events.append((k, evt, item, val))
            if p.get("oneshot2") and k.endswith("2"):
                subscribed[k] = False        # a one-shot callback is discarded by the library once it has been called
        return cb
    cbs = {k: _mk_cb(k) for k in ("comp", "rep", "agent", "comp2", "rep2", "agent2")}
    subscribed = {"comp": False, "rep": False, "agent": False, "comp2": False, "rep2": False, "agent2": False}
    ops_allowed = p.get("ops") or OPS
    snapshot = {}
    hist = []
    n = eng.choose(p["length"], "length") + 1
    done_ops = 0
    agent_up = [True]

    def view(d, kind):
        try:
            if kind == "comp":
                return d.computation_agent("c1")
            if kind == "rep":
                return sorted(d.replica_agents("c1"))
            return d.agent_address("a2")
        except (UnknownComputation, UnknownAgent):
            return None

    late_rep = [False]

    def note_late_replica_notification():
        if not subscribed["rep"] and not subscribed["rep2"]:
            q = bench.channels.get(("_directory", "_discovery_a1"), ())
            q2 = bench.channels.get(("_discovery_a1", "_directory"), ())
            if any(getattr(m, "type", "") == "publish_replica" for m, _ in q) or \
                    any(getattr(m, "type", "") == "subscribe_replica" and m.subscribe for m, _ in q2):
                late_rep[0] = True

    def do_op(op):
        if op.endswith("2"):
            # the same operation with the observer's second callback
            kind = op.split("_")[1][:-1]
            k2 = kind + "2"
            sub = {"comp": d1.subscribe_computation, "rep": d1.subscribe_replica, "agent": d1.subscribe_agent}[kind]
            unsub = {"comp": d1.unsubscribe_computation, "rep": d1.unsubscribe_replica, "agent": d1.unsubscribe_agent}[kind]
            item = "a2" if kind == "agent" else "c1"
            if op.startswith("sub_"):
                if p.get("oneshot2"):
                    if subscribed[k2]:
                        raise PathCut()
                    sub(item, cbs[k2], one_shot=True)
                else:
                    sub(item, cbs[k2])
                subscribed[k2] = True; snapshot[k2] = (view(d1, kind), len(events))
            else:
                if not subscribed[k2]:
                    raise PathCut()
                unsub(item, cbs[k2]); subscribed[k2] = False
                if kind == "rep":
                    note_late_replica_notification()
            return
        if op == "sub_comp":
            d1.subscribe_computation("c1", cbs["comp"]); subscribed["comp"] = True; snapshot["comp"] = (view(d1, "comp"), len(events))
        elif op == "unsub_comp":
            if not subscribed["comp"]:
                raise PathCut()
            d1.unsubscribe_computation("c1", cbs["comp"]); subscribed["comp"] = False
        elif op == "sub_rep":
            d1.subscribe_replica("c1", cbs["rep"]); subscribed["rep"] = True; snapshot["rep"] = (view(d1, "rep"), len(events))
        elif op == "unsub_rep":
            if not subscribed["rep"]:
                raise PathCut()
            d1.unsubscribe_replica("c1", cbs["rep"]); subscribed["rep"] = False
            note_late_replica_notification()
        elif op == "sub_agent":
            d1.subscribe_agent("a2", cbs["agent"]); subscribed["agent"] = True; snapshot["agent"] = (view(d1, "agent"), len(events))
        elif op == "unsub_agent":
            if not subscribed["agent"]:
                raise PathCut()
            d1.unsubscribe_agent("a2", cbs["agent"]); subscribed["agent"] = False
        elif op == "reg_comp":
            if not agent_up[0] or view(d2, "comp") is not None:
                raise PathCut()
            d2.register_computation("c1", "a2", "addr_a2")
        elif op == "unreg_comp":
            if view(d2, "comp") is None:
                raise PathCut()
            d2.unregister_computation("c1", "a2")
        elif op == "reg_rep":
            if not agent_up[0] or view(d2, "comp") is None or "a2" in (view(d2, "rep") or []):
                raise PathCut()
            d2.register_replica("c1", "a2")
        elif op == "unreg_rep":
            if "a2" not in (view(d2, "rep") or []):
                raise PathCut()
            d2.unregister_replica("c1", "a2")
        elif op == "unreg_agent":
            # the actor agent leaves (only possible once it hosts no computation any more)
            if not agent_up[0] or view(d2, "comp") is not None:
                raise PathCut()
            agent_up[0] = False
            d2.unregister_agent("a2")
        elif op == "reg_agent":
            if agent_up[0]:
                raise PathCut()
            agent_up[0] = True
            d2.register_agent("a2", "addr_a2_bis")
    for op in p.get("prelude", []):
        do_op(op)
        bench.fixed_schedule = True
        bench.run(max_steps=bench.steps + 50)
        bench.fixed_schedule = False
    del events[:]
    for k in list(snapshot):
        snapshot[k] = (view(d1, k.rstrip("2")), 0)      # what the observer knows once the prelude is drained
    try:
        while True:
            en = bench.enabled()
            choices = list(en) + (["op"] if done_ops < n else [])
            if not choices:
                break
            if bench.steps > 120:
                eng.fail("discovery messages keep flowing", detail=str(hist))
                return
            t = choices[eng.choose(len(choices), "sched")]
            if t == "op":
                op = ops_allowed[eng.choose(len(ops_allowed), "op_%d" % done_ops)]
                if done_ops and op.startswith("sub") and hist and hist[-1] == op:
                    raise PathCut()
                hist.append(op)
                done_ops += 1
                do_op(op)
            else:
                bench.fire(t)
    except PathCut:
        raise
    except Exception as e:
        from harness.common import region
        eng.notes["outcome"] = {"history": hist, "exc": str(e)}
        regs = region(eng, "C20-replica-notification-unknown-computation",
                      isinstance(e, UnknownComputation) and "_on_replica_publish" in traceback.format_exc()
                      and view(d1, "comp") is None)
        eng.fail("exception %s: %s" % (type(e).__name__, e), regions=regs, detail=str(hist) + traceback.format_exc(limit=-5))
        return
    final = {k: (view(d1, k), view(d_o, k)) for k in ("comp", "rep", "agent")}
    eng.notes["outcome"] = {"history": hist, "final": final, "subscribed": dict(subscribed)}
    for k0 in ("comp", "rep", "agent", "comp2", "rep2", "agent2"):
        if not subscribed[k0]:
            continue
        k = k0.rstrip("2")
        mine, ref = final[k]
        if k == "rep":
            mine, ref = mine or [], ref or []
        from harness.common import region
        regs = region(eng, "C20-replica-notification-unknown-computation", k == "rep" and view(d1, "comp") is None)
        regs += region(eng, "C20-late-replica-notification-after-unsubscribe", k == "rep" and late_rep[0])
        eng.prove(mine == ref, "observer's view of a subscribed %s differs from the directory after all messages are drained"
                  % {"comp": "computation", "rep": "replica set", "agent": "agent"}[k], regions=regs, detail=str((hist, final)))
        before, n_evt = snapshot[k0]
        if before != (view(d1, k) if k != "rep" else (view(d1, k) or [])) and before is not None or (before is None and mine):
            fired = any(e[0] == k0 for e in events[n_evt:])
            eng.prove(fired, "subscription callback did not fire although the subscribed item changed", detail=str((hist, k, events)))
