"""C15 -- everything sent between agents survives the wire and process spawn."""
import importlib
import itertools
import json
import traceback

from harness.common import begin, build_computations, region, F
from symex.catalogue import Instance, spec
from symex.symnum import is_sym

EXPLANATION = ("Message objects of every algorithm and of the infrastructure are generated with symbolic numeric contents and "
               "solver-chosen discrete contents (values, booleans, list lengths, special floats) and sent with the repository's "
               "HttpCommunicationLayer.send_msg (instance built without its server thread; requests.post replaced by a recorder "
               "that encodes a json= argument like requests does, allow_nan=False, and takes a data= argument as it is; the json "
               "module inside pydcop.infrastructure.communication replaced by a front that keeps symbolic numbers, the real "
               "module in concrete replay), parsed like do_POST does (json.loads), decoded with from_repr and "
               "compared field by field (one query). Computation definitions of the four graph models built from symbolic DCOPs "
               "go through the same path and are compared on name, type, links, neighbours and relation values on every "
               "assignment. AgentDef goes through its own __getstate__/__setstate__ (real pickle in concrete replay).")
ASSUMPTIONS = [
    "JSON model J: dict keys become strings (as json does: int 1 -> '1'), tuples become lists, non-finite floats raise ValueError "
    "when the encoder is called with allow_nan=False (what requests does for json=...) and pass otherwise; validated against the "
    "real json module on every replayed witness",
    "numeric contents are symbolic integers in [-2^40, 2^40]; strings are drawn from small fixed sets",
    "the socket and the HTTP server (do_POST header handling) are not exercised; one real two-process-style exchange over localhost with an infinite bound was run by hand for the fix 8fa49bd",
]
BOUNDS = {"quick": "54 message classes with contents of <= 3 items (replication request paths of 2 and 12 hops); computation definitions for pair and chain-3 on the 4 graph models (and a pair whose table may hold an infinite cost, on 2 models); AgentDef with <= 2 routes / hosting costs",
          "thorough": "quick + triangle and ternary instances, variable cost tables, paths / offers with 3 entries"}
OUTSIDE = "arbitrary strings, floats other than integers and the special values, messages of algorithms outside pydcop.algorithms"
CAP_S = {"quick": 900, "thorough": 3600}
LIM = 2 ** 40


# ---------------------------------------------------------------------------
def J(x, allow_nan=False):
    """Model of json.loads(json.dumps(x, allow_nan=allow_nan)) that keeps symbolic numbers."""
    if is_sym(x) or x is None or isinstance(x, (bool, str, int)):
        return x
    if isinstance(x, float):
        if (x != x or x in (float("inf"), float("-inf"))) and not allow_nan:
            raise ValueError("Out of range float values are not JSON compliant")
        return x
    if isinstance(x, (list, tuple)):
        return [J(v, allow_nan) for v in x]
    if isinstance(x, dict):
        out = {}
        for k, v in x.items():
            if isinstance(k, str):
                ks = k
            elif isinstance(k, bool):
                ks = "true" if k else "false"
            elif k is None:
                ks = "null"
            elif isinstance(k, int):
                ks = str(k)
            elif isinstance(k, float):
                ks = repr(k)
            else:
                raise TypeError("keys must be str, int, float, bool or None, not %s" % type(k).__name__)
            out[ks] = J(v, allow_nan)
        return out
    raise TypeError("Object of type %s is not JSON serializable" % type(x).__name__)


class _Body:
    """A request body during symbolic execution: the document the JSON text stands for."""

    def __init__(self, doc):
        self.doc = doc


def _dumps(eng, o, allow_nan):
    return _Body(J(o, allow_nan)) if eng.symbolic else json.dumps(o, allow_nan=allow_nan)


def wire(eng, obj):
    """What the receiving agent decodes when `obj` (a message or a computation definition) is sent to another process.

    The repository's HttpCommunicationLayer.send_msg is executed (on an instance built without its server thread); inside
    pydcop.infrastructure.communication, `requests.post` is replaced by a recorder that encodes a `json=` argument the way
    requests does (allow_nan=False) and takes a `data=` argument as it is, and the `json` module by a front that keeps
    symbolic numbers (model J) -- the real json module in concrete replay.  The body is then parsed like do_POST does
    (json.loads, then from_repr by the caller)."""
    import pydcop.infrastructure.communication as cm
    layer = object.__new__(cm.HttpCommunicationLayer)
    layer._on_error = "fail"
    layer.logger = cm.logging.getLogger("verif.http")
    layer.discovery = type("D", (), {"agent_address": staticmethod(lambda a: ("host", 9000))})()
    sent = {}

    class _Requests:
        exceptions = cm.requests.exceptions

        @staticmethod
        def post(url, headers=None, json=None, data=None, timeout=None, **kw):
            sent["headers"] = dict(headers or {})
            sent["body"] = _dumps(eng, json, False) if json is not None else data
            return type("R", (), {"status_code": 200})()

    class _Json:
        JSONDecodeError = json.JSONDecodeError

        @staticmethod
        def dumps(o, **kw):
            return _dumps(eng, o, kw.get("allow_nan", True))

        @staticmethod
        def loads(s, **kw):
            return s.doc if isinstance(s, _Body) else json.loads(s)
    old = cm.requests, cm.json
    cm.requests, cm.json = _Requests, _Json
    try:
        ok = layer.send_msg("a_src", "a_dst", cm.ComputationMessage("c_src", "c_dst", obj, 20))
        if ok is not True or "body" not in sent:
            raise RuntimeError("send_msg did not post the message (returned %r)" % (ok,))
        body = sent["body"]
        if isinstance(body, bytes):
            body = str(body, "utf-8")
        return cm.json.loads(body)
    finally:
        cm.requests, cm.json = old


def deep_eq(a, b, depth=0):
    """Structural equality as a (possibly symbolic) formula."""
    if is_sym(a) or is_sym(b):
        if isinstance(a, (str, type(None), list, tuple, dict)) or isinstance(b, (str, type(None), list, tuple, dict)):
            return False
        return F.eq(a, b)
    if isinstance(a, bool) or isinstance(b, bool):
        return isinstance(a, bool) and isinstance(b, bool) and a == b
    if isinstance(a, (int, float)) and isinstance(b, (int, float)):
        return a == b or (a != a and b != b)
    if a is None or b is None or isinstance(a, str) or isinstance(b, str):
        return type(a) is type(b) and a == b
    if isinstance(a, (list, tuple)):
        if type(a) is not type(b) or len(a) != len(b):
            return False
        return F.and_([deep_eq(x, y, depth + 1) for x, y in zip(a, b)])
    if isinstance(a, (set, frozenset)):
        return type(a) is type(b) and a == b
    if isinstance(a, dict):
        if not isinstance(b, dict) or set(a) != set(b):
            return False
        return F.and_([deep_eq(a[k], b[k], depth + 1) for k in a])
    if type(a) is not type(b) and type(a).__qualname__ != type(b).__qualname__:
        return False
    if hasattr(a, "__dict__") and depth < 6:
        da = {k: v for k, v in vars(a).items() if k not in ("logger",)}
        db = {k: v for k, v in vars(b).items() if k not in ("logger",)}
        return deep_eq(da, db, depth + 1)
    try:
        import numpy as np
        if isinstance(a, np.ndarray):
            return deep_eq(a.tolist(), b.tolist(), depth + 1)
    except ImportError:
        pass
    return a == b


# ---------------------------------------------------------------------------
def _fields(cls):
    for cell in (cls.__init__.__closure__ or ()):
        if isinstance(cell.cell_contents, list):
            return cell.cell_contents
    return None


def _num(eng, name):
    return eng.sym_int(name, -LIM, LIM)


def _value(eng, tag):
    # domain values may be strings, numbers or tuples (e.g. positions)
    return eng.pick(["R", 0, 2, (0, 1)], tag)


def _special(eng, name, allow):
    k = eng.pick(["sym"] + allow, "kind_" + name)
    return {"sym": None, "inf": float("inf"), "-inf": float("-inf"), "none": None}.get(k, None) if k != "sym" else _num(eng, name)


def message_cases(eng, tier):
    """Yield (label, constructor thunk). One of them is chosen per path."""
    A = importlib.import_module
    cases = []

    def add(label, fn):
        cases.append((label, fn))
    dsa, adsa, dsatuto = A("pydcop.algorithms.dsa"), A("pydcop.algorithms.adsa"), A("pydcop.algorithms.dsatuto")
    mgm, mgm2, dba, gdba = A("pydcop.algorithms.mgm"), A("pydcop.algorithms.mgm2"), A("pydcop.algorithms.dba"), A("pydcop.algorithms.gdba")
    maxsum, dpop, syncbb, ncbb = A("pydcop.algorithms.maxsum"), A("pydcop.algorithms.dpop"), A("pydcop.algorithms.syncbb"), A("pydcop.algorithms.ncbb")
    mixed = A("pydcop.algorithms.mixeddsa")
    orch, disc = A("pydcop.infrastructure.orchestrator"), A("pydcop.infrastructure.discovery")
    ucs, comps = A("pydcop.replication.dist_ucs_hostingcosts"), A("pydcop.infrastructure.computations")
    for m, n in ((dsa, "DsaMessage"), (adsa, "ADsaMessage"), (dsatuto, "DsaMessage"), (mgm, "MgmValueMessage"),
                 (mgm2, "Mgm2ValueMessage"), (dba, "DbaOkMessage"), (gdba, "GdbaOkMessage"), (mixed, "MixedDsaMessage"),
                 (ncbb, "ValueMessage"), (ncbb, "SearchValueMessage")):
        add("%s.%s" % (m.__name__.split(".")[-1], n), lambda m=m, n=n: getattr(m, n)(_value(eng, "value")))
    add("mgm.MgmGainMessage", lambda: mgm.MgmGainMessage(_num(eng, "gain"), _num(eng, "rnd")))
    add("mgm2.Mgm2GainMessage", lambda: mgm2.Mgm2GainMessage(_num(eng, "gain")))
    add("mgm2.Mgm2GoMessage", lambda: mgm2.Mgm2GoMessage(eng.pick([True, False], "go")))
    add("mgm2.Mgm2ResponseMessage", lambda: (mgm2.Mgm2ResponseMessage(True, _value(eng, "value"), _num(eng, "gain"))
                                             if eng.choose(2, "accept") else mgm2.Mgm2ResponseMessage(False)))

    def offers():
        n = eng.choose(3 if tier == "quick" else 4, "n_offers")
        vals = [("R", 0), (0, 0), (2, "R")][:n]
        if not n:       # a "fake" offer (not offering) always carries an empty dict
            return mgm2.Mgm2OfferMessage(dict(), eng.pick([True, False], "offering"))
        return mgm2.Mgm2OfferMessage({v: _num(eng, "offer_%d" % i) for i, v in enumerate(vals)}, True)
    add("mgm2.Mgm2OfferMessage", offers)
    add("dba.DbaImproveMessage", lambda: dba.DbaImproveMessage(_num(eng, "improve"), _num(eng, "eval"), _num(eng, "tc")))
    add("dba.DbaEndMessage", lambda: dba.DbaEndMessage())
    add("gdba.GdbaImproveMessage", lambda: gdba.GdbaImproveMessage(_num(eng, "improve")))

    def ms():
        keys = eng.pick([["R", "G"], [0, 1, 2], [0]], "domain")
        return maxsum.MaxSumMessage({k: _num(eng, "cost_%d" % i) for i, k in enumerate(keys)})
    add("maxsum.MaxSumMessage", ms)

    def dpop_util():
        inst = Instance(eng, spec("pair", "min"))
        return dpop.DpopMessage("UTIL", inst.constraints["c0"])
    add("dpop.DpopMessage.UTIL", dpop_util)

    def dpop_value():
        inst = Instance(eng, spec("pair", "min"))
        # the separator values may be of different kinds (plain value first, tuple later, ...)
        return dpop.DpopMessage("VALUE", ([inst.variables["x"], inst.variables["y"]],
                                          [_value(eng, "value_x"), _value(eng, "value_y")]))
    add("dpop.DpopMessage.VALUE", dpop_value)

    def generic():
        # a plain Message whose content is a list mixing plain values and objects
        inst = Instance(eng, spec("pair", "min"))
        items = [eng.pick(["a", 3, inst.variables["x"], (1, "b")], "item_%d" % i) for i in range(2)]
        return comps.Message("generic", items)
    add("computations.Message.list", generic)

    def sbb(cls):
        n = eng.choose(3 if tier == "quick" else 4, "path_len")
        path = [(v, _value(eng, "pv_%d" % i), _num(eng, "pc_%d" % i)) for i, v in enumerate(["x", "y", "z"][:n])]
        ub = _special(eng, "ub", ["inf", "-inf"])
        return cls(path, ub)
    add("syncbb.forward", lambda: sbb(syncbb.SyncBBForwardMessage))
    add("syncbb.backward", lambda: sbb(syncbb.SyncBBBackwardMessage))
    add("syncbb.terminate.noargs", lambda: syncbb.SyncBBTerminateMessage())
    add("ncbb.CostMessage", lambda: ncbb.CostMessage(_num(eng, "cost")))
    add("ncbb.SearchMessage", lambda: ncbb.SearchMessage(_special(eng, "ub", ["inf"])))
    add("ncbb.SearchCostMessage", lambda: ncbb.SearchCostMessage(_num(eng, "lb")))
    add("ncbb.StopMessage", lambda: ncbb.StopMessage(eng.pick([True, False], "stop")))
    add("computations.SynchronizationMsg", lambda: comps.SynchronizationMsg())
    metrics = lambda: {"count_ext_msg": {"x": _num(eng, "m1")}, "cycles": {"x": _num(eng, "m2")}, "activity_ratio": _num(eng, "m3")}
    names = lambda tag: eng.pick([[], ["x"], ["x", "y"]], tag)
    add("orch.metrics_mode", lambda: orch.SetMetricsModeMessage(eng.pick(["value_change", "period"], "mode"), _num(eng, "period")))
    add("orch.run_computations", lambda: orch.RunAgentMessage(names("comps")))
    add("orch.replication", lambda: orch.ReplicateComputationsMessage(_num(eng, "k")))
    add("orch.replicated", lambda: orch.ComputationReplicatedMessage("a1", {"x": names("hosts")}, metrics()))
    add("orch.pause", lambda: orch.PauseMessage(names("comps")))
    add("orch.resume", lambda: orch.ResumeMessage(names("comps")))
    add("orch.stop", lambda: orch.StopAgentMessage())
    add("orch.stopped", lambda: orch.AgentStoppedMessage("a1", metrics()))
    add("orch.value_change", lambda: orch.ValueChangeMessage("a1", "x", _value(eng, "value"), _num(eng, "cost"), _num(eng, "cycle"), metrics()))
    add("orch.cycle_change", lambda: orch.CycleChangeMessage("a1", "x", _num(eng, "cycle"), metrics()))
    add("orch.metrics", lambda: orch.MetricsMessage("a1", metrics()))
    add("orch.end_of_computation", lambda: orch.ComputationFinishedMessage("a1", "x"))
    add("orch.agent_removed", lambda: orch.AgentRemovedMessage())
    add("orch.repair_done", lambda: orch.RepairDoneMessage("a1", names("selected"), metrics()))
    add("orch.RepairRunMessage", lambda: orch.RepairRunMessage())
    add("orch.RepairReadyMessage", lambda: orch.RepairReadyMessage("a1", names("comps")))
    add("orch.SetupRepairMessage", lambda: orch.SetupRepairMessage(
        {"x": (names("cands"), {"y": "a2"}, {"a2": names("hosted")})}))

    def deploy():
        inst = Instance(eng, spec("pair", "min"))
        cg, _ = build_computations(inst.dcop, "dsa", "min")
        from pydcop.algorithms import AlgorithmDef, ComputationDef
        return orch.DeployMessage(ComputationDef(cg.nodes[0], AlgorithmDef.build_with_default_param("dsa", {}, mode="min")))
    add("orch.deploy", deploy)
    add("disc.publish_agent", lambda: disc.PublishAgentMessage("a1", eng.pick([None, "addr", ["127.0.0.1", 9000]], "address")))
    add("disc.unpublish_agent", lambda: disc.UnPublishAgentMessage("a1"))
    add("disc.subscribe_agent", lambda: disc.SubscribeAgentMessage("a1", eng.pick([True, False], "sub")))
    add("disc.publish_computation", lambda: disc.PublishComputationMessage("x", "a1", eng.pick([None, "addr"], "address")))
    add("disc.unpublish_computation", lambda: disc.UnPublishComputationMessage("x", "a1"))
    add("disc.subscribe_computation", lambda: disc.SubscribeComputationMessage("x", eng.pick([True, False], "sub")))
    add("disc.publish_replica", lambda: disc.PublishReplicaMessage("x", "a1", eng.pick([True, False], "pub")))
    add("disc.subscribe_replica", lambda: disc.SubscribeReplicaMessage("x", eng.pick([True, False], "sub")))

    def ucsmsg():
        inst = Instance(eng, spec("pair", "min"))
        cg, _ = build_computations(inst.dcop, "dsa", "min")
        from pydcop.algorithms import AlgorithmDef, ComputationDef
        cd = ComputationDef(cg.nodes[0], AlgorithmDef.build_with_default_param("dsa", {}, mode="min"))
        n = eng.choose(3, "n_paths")
        paths = [(_num(eng, "pcost_%d" % i), ("a1", "a%d" % (i + 2))) for i in range(n)]
        # request paths are plain tuples of agent names; a long replication path has more than 10 hops
        hops = eng.pick([2, 12], "path_hops")
        rq_path = tuple("a%02d" % i for i in range(hops))
        if hops > 2:
            paths.append((_num(eng, "pcost_long"), rq_path))
        return ucs.UCSReplicateMessage(eng.pick(["replicate_request", "replicate_answer"], "t"), eng.sym_int("budget", 0, LIM),
                                       eng.sym_int("spent", 0, LIM), rq_path, paths, names("visited"), cd,
                                       eng.sym_int("footprint", 0, LIM), eng.sym_int("rc", 0, 10), names("hosts"))
    add("ucs.UCSReplicateMessage", ucsmsg)
    return cases


def jobs(tier):
    out = [{"name": "messages", "kind": "messages"}]
    # pair_isomid: two variables adjacent in the lexical order that share no constraint (order links vs constraint links)
    structs = ["pair", "chain3", "pair_vcost", "pair_isomid"] + (["triangle", "ternary"] if tier == "thorough" else [])
    for s in structs:
        for g, algo in (("pseudotree", "dpop"), ("factor_graph", "maxsum"), ("constraints_hypergraph", "dsa"), ("ordered_graph", "syncbb")):
            out.append({"name": "compdef-%s-%s" % (g, s), "kind": "compdef", "graph": g, "algo": algo, "spec": spec(s, "min")})
    # hard constraints: one entry of the pair's table may be infinite
    for g, algo in (("constraints_hypergraph", "dsa"), ("factor_graph", "maxsum")):
        out.append({"name": "compdef-%s-pair-hard" % g, "kind": "compdef", "graph": g, "algo": algo, "spec": spec("pair", "min"),
                    "hard": True})
    out.append({"name": "agentdef-pickle", "kind": "agentdef"})
    return out


def run(eng, p):
    begin(eng)
    from pydcop.utils.simple_repr import simple_repr, from_repr
    if p["kind"] == "messages":
        cases = message_cases(eng, "quick")
        label, thunk = cases[eng.choose(len(cases), "message_class")]
        eng.notes["outcome"] = {"class": label}
        regs = []
        try:
            msg = thunk()
            back = from_repr(wire(eng, msg))
        except Exception as e:
            eng.fail("%s: encode/decode raised %s: %s" % (label, type(e).__name__, e), regions=regs,
                     detail=traceback.format_exc(limit=-4))
            return
        eng.prove(type(back).__qualname__ == type(msg).__qualname__ and back.type == msg.type,
                  "%s: decoded object is not a message of the same type" % label)
        eng.prove(deep_eq(_msg_state(msg), _msg_state(back)), "%s: decoded message differs from the original" % label,
                  detail=str((_short(_msg_state(msg)), _short(_msg_state(back)))))
        return
    if p["kind"] == "agentdef":
        return run_agentdef(eng)
    return run_compdef(eng, p)


def _short(x):
    s = str(x)
    return s if len(s) < 400 else s[:400] + "..."


def _msg_state(m):
    d = {k: v for k, v in vars(m).items()}
    from pydcop.dcop.relations import NAryMatrixRelation
    from pydcop.dcop.objects import Variable

    def norm(v):
        if isinstance(v, NAryMatrixRelation):
            return {"rel": v.name, "dims": [x.name for x in v.dimensions], "m": v._m.tolist()}
        if isinstance(v, Variable):
            return {"var": v.name, "dom": list(v.domain.values), "init": v.initial_value}
        if isinstance(v, (list, tuple)):
            return type(v)(norm(x) for x in v)
        if isinstance(v, dict):
            return {k: norm(x) for k, x in v.items()}
        if hasattr(v, "node") and hasattr(v, "algo"):        # ComputationDef
            return {"node": v.node.name, "neigh": sorted(v.node.neighbors), "algo": v.algo.algo, "mode": v.algo.mode,
                    "params": dict(v.algo.params)}
        return v
    return {k: norm(v) for k, v in d.items()}


def _entries(c):
    m = getattr(c, "_m", None)
    if m is None:
        return []
    try:
        return [x for x in m.reshape(-1)] if hasattr(m, "reshape") else []
    except Exception:
        return []


def run_compdef(eng, p):
    from pydcop.utils.simple_repr import simple_repr, from_repr
    from pydcop.algorithms import AlgorithmDef, ComputationDef
    inst = Instance(eng, p["spec"], entry_kinds=["sym", "inf"] if p.get("hard") else None,
                    kind_filter=(lambda n: n == "c0_11") if p.get("hard") else None)
    gm = importlib.import_module("pydcop.computations_graph." + p["graph"])
    cg = gm.build_computation_graph(inst.dcop)
    algo = AlgorithmDef.build_with_default_param(p["algo"], {}, mode="min")
    nodes = list(cg.nodes)
    node = nodes[eng.choose(len(nodes), "node")]
    cd = ComputationDef(node, algo)
    eng.notes["outcome"] = {"node": node.name, "graph": p["graph"]}
    regs = region(eng, "C15-ordered-graph-links-lost", p["graph"] == "ordered_graph")
    try:
        back = from_repr(wire(eng, cd))
    except Exception as e:
        eng.fail("computation definition encode/decode raised %s: %s" % (type(e).__name__, e), regions=regs,
                 detail=traceback.format_exc(limit=-4))
        return
    n2 = back.node
    ok = (n2.name == node.name and n2.type == node.type and back.algo.algo == algo.algo and back.algo.mode == algo.mode
          and dict(back.algo.params) == dict(algo.params))
    eng.prove(ok, "decoded computation definition has another name / type / algorithm", regions=regs)
    eng.prove(sorted(n2.neighbors) == sorted(node.neighbors), "decoded node has other neighbours", regions=regs,
              detail=str((sorted(node.neighbors), sorted(n2.neighbors))))

    def link_key(l):
        return (l.type, tuple(sorted(l.nodes)), getattr(l, "source", None), getattr(l, "target", None),
                getattr(l, "factor_node", None), getattr(l, "variable_node", None))
    eng.prove(sorted(map(link_key, node.links), key=str) == sorted(map(link_key, n2.links), key=str),
              "decoded node has other links", regions=regs,
              detail=str((sorted(map(link_key, node.links), key=str), sorted(map(link_key, n2.links), key=str))))
    rels1 = list(getattr(node, "constraints", [])) or ([node.factor] if hasattr(node, "factor") else [])
    rels2 = list(getattr(n2, "constraints", [])) or ([n2.factor] if hasattr(n2, "factor") else [])
    eng.prove(sorted(r.name for r in rels1) == sorted(r.name for r in rels2), "decoded node has other constraints", regions=regs)
    conds = []
    by = {r.name: r for r in rels2}
    for r in rels1:
        r2 = by.get(r.name)
        if r2 is None:
            continue
        if [v.name for v in r.dimensions] != [v.name for v in r2.dimensions]:
            conds.append(False)
            continue
        for combo in itertools.product(*[list(v.domain.values) for v in r.dimensions]):
            a = {v.name: x for v, x in zip(r.dimensions, combo)}
            conds.append(F.eq(r(**a), r2(**a)))
    if hasattr(node, "variable"):
        v1, v2 = node.variable, n2.variable
        conds.append(v1.name == v2.name and list(v1.domain.values) == list(v2.domain.values)
                     and v1.initial_value == v2.initial_value)
        for d in v1.domain.values:
            conds.append(deep_eq(v1.cost_for_val(d), v2.cost_for_val(d)))
    eng.prove(F.and_(conds) if conds else True, "a relation / variable of the decoded definition differs on some assignment", regions=regs)


def run_agentdef(eng):
    import pickle
    from pydcop.dcop.objects import AgentDef
    routes = {o: eng.sym_int("route_" + o, -LIM, LIM) for o in ("a2", "a3") if eng.choose(2, "has_route_" + o)}
    hosting = {c: eng.sym_int("host_" + c, -LIM, LIM) for c in ("c1", "c2") if eng.choose(2, "has_host_" + c)}
    dr, dh, cap = eng.sym_int("default_route", -LIM, LIM), eng.sym_int("default_hosting", -LIM, LIM), eng.sym_int("capacity", 0, LIM)
    a = AgentDef("a1", default_route=dr, routes=routes, default_hosting_cost=dh, hosting_costs=hosting, capacity=cap, foo="bar")
    eng.notes["outcome"] = {"routes": sorted(routes), "hosting": sorted(hosting)}
    try:
        if eng.symbolic:
            b = AgentDef.__new__(AgentDef)
            b.__setstate__(a.__getstate__())
        else:
            b = pickle.loads(pickle.dumps(a))
        conds = [b.name == a.name, b.foo == "bar", deep_eq(b.capacity, cap)]
        conds += [deep_eq(b.route(o), a.route(o)) for o in ("a1", "a2", "a3", "zz")]
        conds += [deep_eq(b.hosting_cost(c), a.hosting_cost(c)) for c in ("c1", "c2", "c9")]
        conds += [deep_eq(b.default_hosting_cost, dh), sorted(b.extra_attr()) == sorted(a.extra_attr())]
        eng.prove(F.and_(conds), "unpickled AgentDef differs from the original (name / attributes / hosting costs / routes)")
    except Exception as e:
        eng.fail("AgentDef pickling round trip raised %s: %s" % (type(e).__name__, e), detail=traceback.format_exc(limit=-4))
