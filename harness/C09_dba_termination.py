"""C09 -- DBA declares termination only on a satisfying assignment."""
import traceback

from harness.common import begin, build_computations, Bench, F
from symex.catalogue import Instance, spec

EXPLANATION = ("Real DbaComputation objects; every table entry is a symbolic integer in [0, 2*infinity] (the code branches on "
               "`>= infinity`), initial values, random.choice and the FIFO delivery order are solver-chosen. At every finished() "
               "call the assignment held by all computations at that moment must have every constraint entry below infinity "
               "(one query per path).")
ASSUMPTIONS = [
    "infinity parameter 10000 (default), and 100 on the pair / chain-3 jobs; entries are integers in [0, 2*infinity]; numpy storage replaced by object arrays",
    "max_distance is chosen in {diameter, diameter + 1}",
    "runs are truncated when a computation reaches 8 cycles: the claim covers finishes observed within that bound",
    "delivery model: per-channel FIFO interleavings (sleep-set reduced) on the pair, canonical schedule on 3-variable graphs in quick",
]
BOUNDS = {
    "quick": "pair (domain 2 and 3, all schedules), chain-3 and triangle (domain 2, canonical schedule); max_distance in {d, d+1}; <= 8 cycles; ring of 7 variables (diameter 3) with pinned hard tables (2-colouring; one different edge), all 128 initial assignments, ties broken by the first best value, canonical schedule, <= 40 cycles",
    "thorough": "quick + chain-3 and triangle with all schedules (domain 2), triangle domain 3 canonical schedule, triangle+pendant (4 computations) with pinned hard tables, free initial values and every interleaving of the deliveries to the hub, 3 cycles",
}
OUTSIDE = "more than 4 variables with symbolic tables (the ring of 7 has pinned tables and scripted ties), domains above 3, finishes after the cycle bound, max_distance below the diameter"
CAP_S = {"quick": 1200, "thorough": 18000}
DIAM = {"pair": 1, "chain3": 2, "triangle": 1, "tri_pendant": 2, "ring7": 3}
INFV = 10000
# hard tables of a satisfiable CSP on the triangle-with-pendant graph: x != w, not(x=0 and y=1), not(x=0 and z=1), y != z
HARD4 = {"c3_00": INFV, "c3_01": 0, "c3_10": 0, "c3_11": INFV,
         "c0_00": 0, "c0_01": INFV, "c0_10": 0, "c0_11": 0,
         "c1_00": 0, "c1_01": INFV, "c1_10": 0, "c1_11": 0,
         "c2_00": INFV, "c2_01": 0, "c2_10": 0, "c2_11": INFV}


def _ring7(kind):
    """Pinned hard tables on the ring of 7 variables: 2-colouring (unsatisfiable: nobody may ever finish) or all-equal
    except one 'different' edge (satisfiable)."""
    pins = {}
    for i in range(7):
        eq_is_bad = kind == "2col" or i == 0
        for a in range(2):
            for b in range(2):
                bad = (a == b) if eq_is_bad else (a != b)
                pins["c%d_%d%d" % (i, a, b)] = INFV if bad else 0
    return pins


def jobs(tier):
    out = [
        {"name": "pair-d2", "spec": spec("pair", "min"), "fixed": False, "inf_choice": True},
        {"name": "pair-d3", "spec": spec("pair", "min", dom=3), "fixed": False},
        {"name": "chain3-d2-fixed", "spec": spec("chain3", "min"), "fixed": True, "inf_choice": True},
        {"name": "triangle-d2-fixed", "spec": spec("triangle", "min"), "fixed": True},
    ]
    # long cycle (7 computations, diameter 3): pinned hard tables, the 7 initial values free, later ties broken by the first
    # best value, canonical schedule, max_distance in {3, 4}
    out.append({"name": "ring7-2col-fixed", "spec": spec("ring7", "min", pins=_ring7("2col")), "fixed": True, "cycles": 40,
                "free_choices": 7, "steps": 6000})
    out.append({"name": "ring7-mixed-fixed", "spec": spec("ring7", "min", pins=_ring7("mixed")), "fixed": True, "cycles": 40,
                "free_choices": 7, "steps": 6000})
    if tier == "thorough":
        out += [
            {"name": "chain3-d2-allsched", "spec": spec("chain3", "min"), "fixed": False},
            {"name": "triangle-d2-allsched", "spec": spec("triangle", "min"), "fixed": False},
            {"name": "triangle-d3-fixed", "spec": spec("triangle", "min", dom=3), "fixed": True},
            # 4 computations, every FIFO interleaving of the deliveries to the hub x (others in canonical order): tables pinned
            # to one satisfiable CSP, initial values / ties / max_distance free, 3 cycles (millions of paths)
            {"name": "tri_pendant-pinned-hubsched", "spec": spec("tri_pendant", "min", pins=HARD4), "fixed": False, "cycles": 3,
             "free_targets": ["x"]},
        ]
    return out


def run(eng, p):
    rnd = begin(eng, random_modules=["pydcop.algorithms.dba", "pydcop.infrastructure.computations"])
    rnd.free_choices = p.get("free_choices")
    # the value marking a violated constraint is a parameter of the algorithm (default 10000)
    INF = eng.pick([10000, 100], "infinity") if p.get("inf_choice") else 10000
    inst = Instance(eng, p["spec"], lo=0, hi=2 * INF)
    d = DIAM[p["spec"]["name"]]
    md = eng.pick([d, d + 1], "max_distance")
    cg, comps = build_computations(inst.dcop, "dba", "min", {"max_distance": md, "infinity": INF})
    bench = Bench(eng)
    bench.fixed_schedule = bool(p.get("fixed"))
    if p.get("free_targets"):
        bench.free_targets = set(p["free_targets"])
    for c in comps:
        bench.add(c)
    snapshots = []

    def on_finished(name):
        snapshots.append((name, {n: c.current_value for n, c in bench.comps.items()}))
    bench.on_finished = on_finished
    try:
        bench.start_all()
        status = bench.run(max_steps=p.get("steps", 400), stop=lambda: any(c.cycle_count >= p.get("cycles", 8) for c in comps))
    except Exception as e:
        eng.notes["outcome"] = {"exc": str(e)}
        eng.fail("exception %s: %s" % (type(e).__name__, e), detail=traceback.format_exc(limit=-4))
        return
    eng.notes["outcome"] = {"status": status, "max_distance": md, "finishes": [(n, v) for n, v in snapshots]}
    conds = []
    for name, vals in snapshots:
        if any(vals[v] not in inst.domains[v] for v in vals):
            eng.fail("a computation finished while another holds no valid value", detail=str((name, vals)))
            return
        for cn, sc in inst.scopes.items():
            entry = inst.tables[cn][tuple(inst.domains[v].index(vals[v]) for v in sc)]
            conds.append(F.lt(entry, INF))
    eng.prove(F.and_(conds) if conds else True, "a DBA computation finished while the held assignment violates a constraint",
              detail=str(snapshots))
