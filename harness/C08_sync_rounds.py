"""C08 -- synchronous computations run in proper rounds under any async order."""
import types

from harness.common import begin, build_computations, Bench, F
from symex.catalogue import Instance, spec

EXPLANATION = ("The real SynchronousComputationMixin is driven (a) by a probe algorithm defined in the harness that, in every "
               "round, sends a tagged message to a solver-chosen subset of its neighbours (through the return value or through "
               "post_msg), and (b) by the real DSA-tuto and Max-Sum computations; start order and per-channel-FIFO delivery order "
               "are solver-chosen and explored exhaustively (sleep-set reduced). Oracle: on_new_cycle is called with cycle ids "
               "0,1,2,... and exactly the tagged messages the neighbours sent in the previous round; no ComputationException.")
ASSUMPTIONS = [
    "delivery model: any interleaving keeping each sender->receiver channel FIFO; handlers touch only their own computation (sleep sets)",
    "probe messages carry (sender, round) tags; the subset of neighbours addressed each round is arbitrary",
    "run truncated when every computation has completed the stated number of rounds",
]
BOUNDS = {
    "quick": "probe: pair (3 rounds, subset and return/post per round), chain-3 (2 rounds), triangle and star-3 (degree 3; 1 complete round plus the messages of the next) with a subset fixed per computation; star-3 until the hub has completed 2 rounds (leaves 1) with everybody addressing all neighbours; a relay algorithm re-posting received message objects (chain-3, 3 rounds; triangle, 2 rounds); DSA-tuto on a pair (3 rounds); all schedules and start orders",
    "thorough": "probe: chain-3 per-round subsets, chain-3 with 3 rounds, triangle/star-3 with 2 rounds; DSA-tuto chain-3; Max-Sum pair (4 rounds)",
}
OUTSIDE = "more than 4 computations, more than 3 rounds, NCBB (needs the pseudo-tree specific messages)"
CAP_S = {"quick": 1200, "thorough": 10800}

GRAPHS = {
    "pair": {"a": ["b"], "b": ["a"]},
    "chain3": {"a": ["b"], "b": ["a", "c"], "c": ["b"]},
    "triangle": {"a": ["b", "c"], "b": ["a", "c"], "c": ["a", "b"]},
    "star3": {"a": ["b", "c", "d"], "b": ["a"], "c": ["a"], "d": ["a"]},
}


def jobs(tier):
    out = [
        {"name": "probe-pair-r3", "kind": "probe", "graph": "pair", "rounds": 3, "per_round": True, "via": "choose"},
        {"name": "probe-chain3-r2", "kind": "probe", "graph": "chain3", "rounds": 2, "per_round": False, "via": "choose"},
        {"name": "probe-triangle-r1", "kind": "probe", "graph": "triangle", "rounds": 1, "per_round": False, "via": "return"},
        {"name": "probe-triangle-r1-post", "kind": "probe", "graph": "triangle", "rounds": 1, "per_round": False, "via": "post",
         "free": ["a"]},
        {"name": "probe-star3-r1", "kind": "probe", "graph": "star3", "rounds": 1, "per_round": False, "via": "return",
         "free": ["a", "b"]},
        # degree 3 over two full rounds, everybody talks to everybody: two leaves can be one round ahead of the hub at the
        # same time (several early messages buffered for the next round)
        {"name": "probe-star3-r2-all", "kind": "probe", "graph": "star3", "rounds": 1, "rounds_for": {"a": 2}, "per_round": False,
         "via": "return", "free": []},
        {"name": "probe-triangle-r1-mixed", "kind": "probe", "graph": "triangle", "rounds": 1, "per_round": False, "via": "mixed",
         "free": []},
        # a relay algorithm: fresh tokens at start, then every computation passes on (the same message objects) what it
        # received: a message object is posted again in a later round
        {"name": "relay-chain3-r3", "kind": "relay", "graph": "chain3", "rounds": 3},
        {"name": "relay-triangle-r2", "kind": "relay", "graph": "triangle", "rounds": 2},
        {"name": "dsatuto-pair-r3", "kind": "algo", "algo": "dsatuto", "spec": spec("pair", "min"), "rounds": 3},
    ]
    if tier == "thorough":
        out += [
            {"name": "probe-chain3-r2-perround", "kind": "probe", "graph": "chain3", "rounds": 2, "per_round": True, "via": "return"},
            {"name": "probe-chain3-r3", "kind": "probe", "graph": "chain3", "rounds": 3, "per_round": False, "via": "choose"},
            {"name": "probe-triangle-r2", "kind": "probe", "graph": "triangle", "rounds": 2, "per_round": False, "via": "return",
             "free": ["a", "b"]},
            {"name": "probe-star3-r2", "kind": "probe", "graph": "star3", "rounds": 2, "per_round": False, "via": "return",
             "free": ["a", "b"]},
            {"name": "dsatuto-chain3-r2", "kind": "algo", "algo": "dsatuto", "spec": spec("chain3", "min"), "rounds": 2},
            {"name": "maxsum-pair-r4", "kind": "algo", "algo": "maxsum", "spec": spec("pair", "min"), "rounds": 4},
        ]
    return out


def _make_probe(eng, name, neighbors, p, log):
    from pydcop.infrastructure.computations import (SynchronousComputationMixin, DcopComputation, register,
                                                    message_type)
    ProbeMsg = _make_probe.msg or message_type("probe", ["tag"])
    _make_probe.msg = ProbeMsg

    class Probe(SynchronousComputationMixin, DcopComputation):
        def __init__(self):
            node = types.SimpleNamespace(neighbors=list(neighbors), name=name)
            super().__init__(name, types.SimpleNamespace(node=node, algo=None))
            self.fixed_subset = None
            self.fixed_via = None

        @register("probe")
        def _on_probe(self, s, m, t):
            pass

        def _choose(self, phase):
            if not p["per_round"] and self.fixed_subset is not None:
                return self.fixed_subset, self.fixed_via
            if "free" in p and name not in p["free"]:
                subset = list(neighbors)          # this computation always talks to everybody
            else:
                k = eng.choose(2 ** len(neighbors), "subset_%s_%d" % (name, phase))
                subset = [n for i, n in enumerate(neighbors) if (k >> i) & 1]
            if p["via"] == "choose":
                opts = ["return", "post"] + (["mixed"] if len(subset) > 1 else [])
                via = eng.pick(opts, "via_%s_%d" % (name, phase)) if subset else "return"
            elif p["via"] == "mixed":
                via = "mixed" if len(subset) > 1 else "return"
            else:
                via = p["via"]
            self.fixed_subset, self.fixed_via = subset, via
            return subset, via

        def on_start(self):
            subset, _ = self._choose(0)
            for n in subset:
                self.post_msg(n, ProbeMsg((name, 0)))
            log["sent"][(name, 0)] = list(subset)

        def on_new_cycle(self, messages, cycle_id):
            log["cycles"].setdefault(name, []).append(
                (cycle_id, {s: (m.tag if hasattr(m, "tag") else repr(m)) for s, (m, t) in messages.items()}))
            phase = cycle_id + 1
            subset, via = self._choose(phase)
            log["sent"][(name, phase)] = list(subset)
            if via == "post":
                for n in subset:
                    self.post_msg(n, ProbeMsg((name, phase)))
                return None
            if via == "mixed":
                # first neighbour through post_msg, the others through the returned list, in the same round
                self.post_msg(subset[0], ProbeMsg((name, phase)))
                return [(n, ProbeMsg((name, phase))) for n in subset[1:]]
            return [(n, ProbeMsg((name, phase))) for n in subset]
    return Probe()


_make_probe.msg = None


def run_relay(eng, p):
    begin(eng, numpy_facade=False)
    from pydcop.infrastructure.computations import (SynchronousComputationMixin, DcopComputation, register, message_type)
    TokMsg = _make_probe.msg or message_type("probe", ["tag"])
    _make_probe.msg = TokMsg
    graph = GRAPHS[p["graph"]]
    calls = {}

    def make(name, neighbors):
        class Relay(SynchronousComputationMixin, DcopComputation):
            def __init__(self):
                node = types.SimpleNamespace(neighbors=list(neighbors), name=name)
                super().__init__(name, types.SimpleNamespace(node=node, algo=None))

            @register("probe")
            def _on_probe(self, s, m, t):
                pass

            def on_start(self):
                for n in neighbors:
                    self.post_msg(n, TokMsg((name, n)))

            def on_new_cycle(self, messages, cycle_id):
                calls.setdefault(name, []).append((cycle_id, sorted(messages)))
                # pass the token received from neighbour k+1 on to neighbour k (the very same message object)
                out = []
                for k, n in enumerate(neighbors):
                    src = neighbors[(k + 1) % len(neighbors)]
                    if src in messages:
                        out.append((n, messages[src][0]))
                return out
        return Relay()
    bench = Bench(eng)
    comps = {name: bench.add(make(name, neigh)) for name, neigh in graph.items()}
    R = p["rounds"]
    try:
        status = bench.run(max_steps=400, stop=lambda: all(c.current_cycle >= R for c in comps.values()))
    except Exception as e:
        import traceback
        eng.notes["outcome"] = {"exc": str(e)}
        eng.fail("exception %s: %s" % (type(e).__name__, e), detail=traceback.format_exc(limit=-4))
        return
    eng.notes["outcome"] = {"status": status, "calls": calls}
    eng.prove(status == "stopped", "relay computations did not all complete %d rounds (stuck: %s)" % (R, status), detail=str(calls))
    ok = all([c for c, _ in cs] == list(range(len(cs))) and all(m == sorted(graph[n]) for _, m in cs) for n, cs in calls.items())
    eng.prove(ok, "a round was not handed exactly one message per neighbour, with consecutive cycle ids", detail=str(calls))


def run(eng, p):
    if p["kind"] == "relay":
        return run_relay(eng, p)
    if p["kind"] == "probe":
        return run_probe(eng, p)
    return run_algo(eng, p)


def run_probe(eng, p):
    begin(eng, numpy_facade=False)
    graph = GRAPHS[p["graph"]]
    log = {"sent": {}, "cycles": {}}
    bench = Bench(eng)
    comps = {}
    for name, neigh in graph.items():
        comps[name] = bench.add(_make_probe(eng, name, neigh, p, log))
    R = p["rounds"]
    try:
        RF = p.get("rounds_for", {})
        status = bench.run(max_steps=400, stop=lambda: all(c.current_cycle >= RF.get(n, R) for n, c in comps.items()))
    except Exception as e:
        import traceback
        eng.notes["outcome"] = {"exc": str(e)}
        eng.fail("exception %s: %s" % (type(e).__name__, e), detail=traceback.format_exc(limit=-4))
        return
    eng.notes["outcome"] = {"status": status, "cycles": {k: [(c, sorted(m)) for c, m in v] for k, v in log["cycles"].items()}}
    eng.prove(status == "stopped", "computations did not all complete their %d round(s) (hub: %s) (stuck: %s)" % (R, p.get("rounds_for"), status),
              detail=str(eng.notes["outcome"]))
    ok, why = True, None
    for name, calls in log["cycles"].items():
        ids = [c for c, _ in calls]
        if ids != list(range(len(ids))):
            ok, why = False, ("cycle ids not consecutive", name, ids)
        for cid, msgs in calls:
            expected = {n: (n, cid) for n in graph[name] if name in log["sent"].get((n, cid), [])}
            if msgs != expected:
                ok, why = False, ("round %d of %s handed %s, expected %s" % (cid, name, msgs, expected))
    eng.prove(ok, "a round was not handed exactly the messages its neighbours sent in the previous round", detail=str(why))


def run_algo(eng, p):
    algo = p["algo"]
    begin(eng, random_modules=["pydcop.algorithms." + algo, "pydcop.infrastructure.computations", "pydcop.dcop.relations"])
    inst = Instance(eng, p["spec"], lo=0, hi=3)
    params = {}
    if algo == "maxsum":
        params = {"damping": 0, "noise": 0}
    cg, comps = build_computations(inst.dcop, algo, inst.mode, params)
    bench = Bench(eng)
    calls = {}
    for c in comps:
        bench.add(c)
        orig = c.on_new_cycle

        def wrapped(messages, cycle_id, _c=c, _o=orig):
            calls.setdefault(_c.name, []).append((cycle_id, sorted(messages)))
            return _o(messages, cycle_id)
        c.on_new_cycle = wrapped
    R = p["rounds"]
    try:
        status = bench.run(max_steps=600, stop=lambda: all(c.current_cycle >= R for c in comps))
    except Exception as e:
        import traceback
        eng.notes["outcome"] = {"exc": str(e)}
        eng.fail("exception %s: %s" % (type(e).__name__, e), detail=traceback.format_exc(limit=-4))
        return
    eng.notes["outcome"] = {"status": status, "calls": calls}
    eng.prove(status == "stopped", "computations did not all complete %d rounds (%s)" % (R, status), detail=str(calls))
    ok = all([c for c, _ in v] == list(range(len(v))) for v in calls.values())
    eng.prove(ok, "on_new_cycle not called with consecutive cycle ids", detail=str(calls))
    if algo == "dsatuto":
        # DSA-tuto sends its value to every neighbour each round: every round must be handed one message per neighbour
        full = all(len(m) == len(bench.comps[n].neighbors) for n, v in calls.items() for _, m in v)
        eng.prove(full, "a DSA-tuto round was not handed one value message per neighbour", detail=str(calls))
