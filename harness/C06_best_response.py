"""C06 -- best-response helpers return exactly the optimal values and cost."""
import itertools

from harness.common import begin, build_computations, region, Bench, F
from symex.catalogue import Instance, spec, BIG

EXPLANATION = ("find_arg_optimal, find_optimal, optimal_cost_value and projection are executed on symbolic cost tables whose "
               "entries are each chosen among {finite symbolic integer, +inf, -inf}; real DSA (A/B/C), A-DSA and DSA-tuto "
               "computations are run on the bench and every value change is compared with the optimal set computed from "
               "the neighbour values the computation held at that moment.")
ASSUMPTIONS = [
    "finite costs are integers in [-2^40, 2^40] (covers values beyond 32 bits); infinities are concrete float infinities chosen per entry",
    "tables mixing +inf and -inf in one sum (NaN) are excluded",
    "random.random() is an arbitrary real in [0,1); random.choice an arbitrary element",
    "numpy storage replaced by dtype=object arrays",
]
BOUNDS = {
    "quick": "helpers: domain sizes 2-3, up to 2 constraints of arity <= 2 (plus one ternary), with/without own cost table on the target and/or on its neighbour, a variable without constraint, min/max; projection of a binary relation (2x3, infinite entries) and of a ternary relation (2x3x2, middle variable eliminated); DSA A/B/C on pair, DSA-A on chain-3 (2 cycles), A-DSA pair (3 ticks), DSA-tuto pair (3 rounds)",
    "thorough": "helpers: domain up to 4, ternary + binary, all kinds; DSA variants on chain-3 and pair with variable costs, 3 cycles",
}
OUTSIDE = "domains above 4, more than 2 constraints per variable, float-valued finite costs, NaN"
CAP_S = {"quick": 900, "thorough": 5400}

KINDS = {"fin": None, "posinf": ["sym", "inf"], "neginf": ["sym", "-inf"]}


def jobs(tier):
    out = []
    doms = [1, 2, 3] if tier == "quick" else [1, 2, 3, 4]
    for mode in ("min", "max"):
        for dom in doms:
            for kinds in ("fin", "posinf", "neginf"):
                out.append({"name": "argopt-d%d-%s-%s" % (dom, kinds, mode), "op": "argopt", "dom": dom, "kinds": kinds,
                            "mode": mode})
        for struct in (["pair", "pair_vcost", "pair_dbl", "chain3", "chain3_vcost"] +
                       (["ternary", "ternary_bin"] if tier == "thorough" else ["ternary"])):
            for kinds in ("fin", "posinf", "neginf"):
                for dom in ([2] if tier == "quick" else [2, 3]):
                    if struct.startswith("ternary") and dom > 2:
                        continue
                    target = "y" if struct.startswith("chain3") else "x"
                    out.append({"name": "findopt-%s-d%d-%s-%s" % (struct, dom, kinds, mode), "op": "findopt",
                                "spec": spec(struct, mode, dom=dom), "kinds": kinds, "target": target})
        # the neighbour's own cost table must not leak into the best response; a variable without constraint still has
        # its own costs
        for kinds in ("fin", "posinf", "neginf"):
            out.append({"name": "findopt-pair_vcost2-x-%s-%s" % (kinds, mode), "op": "findopt", "spec": spec("pair_vcost2", mode),
                        "kinds": kinds, "target": "x"})
            out.append({"name": "findopt-pair_vcost-y-%s-%s" % (kinds, mode), "op": "findopt", "spec": spec("pair_vcost", mode),
                        "kinds": kinds, "target": "y"})
            out.append({"name": "findopt-single_vcost-%s-%s" % (kinds, mode), "op": "findopt", "spec": spec("single_vcost", mode),
                        "kinds": kinds, "target": "x"})
        for dom in doms:
            for kinds in ("fin", "posinf"):
                out.append({"name": "ocv-d%d-%s-%s" % (dom, kinds, mode), "op": "ocv", "dom": dom, "kinds": kinds, "mode": mode})
        for kinds in ("fin", "posinf", "neginf"):
            out.append({"name": "adsafbv-pairvcost-%s-%s" % (kinds, mode), "op": "adsafbv", "spec": spec("pair_vcost", mode),
                        "kinds": kinds, "target": "x"})
        out.append({"name": "ocv-nocost-%s" % mode, "op": "ocv", "dom": 3, "kinds": "none", "mode": mode})
        out.append({"name": "proj-inf-%s" % mode, "op": "proj", "kinds": "posinf" if mode == "min" else "neginf", "mode": mode})
        out.append({"name": "proj3-y-%s" % mode, "op": "proj3", "kinds": "fin", "mode": mode, "elim": "y"})
        # DSA family on the bench
        for variant in ("A", "B", "C"):
            out.append({"name": "dsa%s-pair-%s" % (variant, mode), "op": "dsa", "algo": "dsa", "variant": variant,
                        "spec": spec("pair", mode), "stop": 2})
        out.append({"name": "dsaA-chain3-%s" % mode, "op": "dsa", "algo": "dsa", "variant": "A",
                    "spec": spec("chain3", mode), "stop": 2 if tier == "quick" else 3, "upfront": True})
        out.append({"name": "dsaA-pairvcost-%s" % mode, "op": "dsa", "algo": "dsa", "variant": "A",
                    "spec": spec("pair_vcost", mode), "stop": 2})
        out.append({"name": "dsaA-pairvcost2-%s" % mode, "op": "dsa", "algo": "dsa", "variant": "A",
                    "spec": spec("pair_vcost2", mode), "stop": 2})
        out.append({"name": "adsa-pair-%s" % mode, "op": "dsa", "algo": "adsa", "variant": "A", "spec": spec("pair", mode),
                    "ticks": 2 if tier == "quick" else 3})
        out.append({"name": "adsa-pairvcost-%s" % mode, "op": "dsa", "algo": "adsa", "variant": "B",
                    "spec": spec("pair_vcost", mode), "ticks": 2 if tier == "quick" else 3})
        out.append({"name": "dsatuto-pair-%s" % mode, "op": "dsa", "algo": "dsatuto", "spec": spec("pair", mode), "rounds": 3})
        if tier == "thorough":
            for variant in ("B", "C"):
                out.append({"name": "dsa%s-chain3-%s" % (variant, mode), "op": "dsa", "algo": "dsa", "variant": variant,
                            "spec": spec("chain3", mode), "stop": 2, "upfront": True})
            out.append({"name": "dsatuto-chain3-%s" % mode, "op": "dsa", "algo": "dsatuto", "spec": spec("chain3", mode),
                        "rounds": 2, "upfront": True})
    return out


def _opt_set_formula(values, costs, got_set, got_cost, mode):
    """got_set == {v : cost(v) == opt}  and  got_cost == opt (inf-aware, non forking)."""
    cmp = F.le if mode == "min" else F.ge
    conds = []
    for v, c in zip(values, costs):
        is_opt = F.and_([cmp(c, c2) for c2 in costs])
        conds.append(F.iff(is_opt, v in got_set) if not isinstance(is_opt, bool) else (is_opt == (v in got_set)))
        if v in got_set:
            conds.append(_eq(got_cost, c))
    return F.and_(conds)


def _eq(a, b):
    inf = float("inf")
    if isinstance(a, float) and a in (inf, -inf) or isinstance(b, float) and b in (inf, -inf):
        return (not F._sym(a)) and (not F._sym(b)) and a == b
    if a is None or b is None:
        return a is b
    return F.eq(a, b)


def run(eng, p):
    op = p["op"]
    if op == "dsa":
        return run_dsa(eng, p)
    begin(eng, random_modules=["pydcop.dcop.relations"])
    from pydcop.dcop.objects import Domain, Variable, VariableWithCostDict
    from pydcop.dcop.relations import (NAryMatrixRelation, find_arg_optimal, find_optimal, optimal_cost_value,
                                       projection)
    kinds = KINDS.get(p.get("kinds"))
    if op == "argopt":
        n, mode = p["dom"], p["mode"]
        x = Variable("x", Domain("d", "", list(range(n))))
        costs = [_entry(eng, "c%d" % i, kinds) for i in range(n)]
        rel = NAryMatrixRelation([x], costs, name="u")
        vals, cost = find_arg_optimal(x, rel, mode)
        eng.notes["outcome"] = {"vals": list(vals)}
        eng.prove(len(set(vals)) == len(vals) and all(v in range(n) for v in vals), "returned values not distinct domain values")
        eng.prove(_opt_set_formula(list(range(n)), costs, set(vals), cost, mode),
                  "find_arg_optimal did not return exactly the optimal values with the optimal cost", detail=str(vals))
    elif op in ("findopt", "adsafbv"):
        inst = Instance(eng, p["spec"], entry_kinds=kinds)
        tgt = p["target"]
        others = {v: inst.domains[v][eng.choose(len(inst.domains[v]), "val_" + v)] for v in inst.var_names() if v != tgt}
        cons = [c for cn, c in inst.constraints.items() if tgt in inst.scopes[cn]]
        var = inst.variables[tgt]
        if op == "findopt":
            vals, cost = find_optimal(var, dict(others), cons, inst.mode)
        else:
            cg, comps = build_computations(inst.dcop, "adsa", inst.mode)
            comp = [c for c in comps if c.name == tgt][0]
            vals, cost = comp.find_best_values(dict(others))
        eng.notes["outcome"] = {"vals": None if vals is None else list(vals)}
        local = []
        for d in inst.domains[tgt]:
            a = dict(others)
            a[tgt] = d
            terms = [inst.tables[cn][tuple(inst.domains[v].index(a[v]) for v in sc)]
                     for cn, sc in inst.scopes.items() if tgt in sc]
            if tgt in inst.vcosts:
                terms.append(inst.vcosts[tgt][d])
            tot = 0
            for t in terms:
                tot = tot + t
            local.append(tot)
        eng.prove(vals is not None and len(set(vals)) == len(vals), "find_optimal returned no value list")
        eng.prove(_opt_set_formula(inst.domains[tgt], local, set(vals), cost, inst.mode),
                  "find_optimal did not return exactly the optimal values (constraints + own cost) with the optimal cost",
                  detail=str(vals))
    elif op == "ocv":
        n, mode = p["dom"], p["mode"]
        d = Domain("d", "", list(range(n)))
        if p["kinds"] == "none":
            x = Variable("x", d)
            val, cost = optimal_cost_value(x, mode)
            eng.notes["outcome"] = {"val": val}
            eng.prove(val in range(n), "optimal_cost_value returned a value outside the domain", detail=str(val))
            return
        costs = [_entry(eng, "c%d" % i, kinds) for i in range(n)]
        x = VariableWithCostDict("x", d, dict(zip(range(n), costs)))
        val, cost = optimal_cost_value(x, mode)
        eng.notes["outcome"] = {"val": val if isinstance(val, int) else str(type(val))}
        ok_val = isinstance(val, int) and val in range(n)
        eng.prove(ok_val, "optimal_cost_value returned a value outside the domain")
        if ok_val:
            cmp = F.le if mode == "min" else F.ge
            eng.prove(F.and_([cmp(costs[val], c) for c in costs] + [_eq(cost, costs[val])]),
                      "optimal_cost_value did not return an optimal value with its cost")
    elif op == "proj3":
        # ternary relation with domains of different sizes: the projected table has two remaining axes
        mode = p["mode"]
        doms = {"x": [0, 1], "y": [0, 1, 2], "z": [0, 1]}
        vs = {n: Variable(n, Domain("d" + n, "", d)) for n, d in doms.items()}
        order = ["x", "y", "z"]
        tab = {}
        for i in doms["x"]:
            for j in doms["y"]:
                for k in doms["z"]:
                    tab[(i, j, k)] = _entry(eng, "u%d%d%d" % (i, j, k), kinds)
        rel = NAryMatrixRelation([vs[n] for n in order], [[[tab[(i, j, k)] for k in doms["z"]] for j in doms["y"]] for i in doms["x"]],
                                 name="u")
        elim = p["elim"]
        pr = projection(rel, vs[elim], mode)
        rest = [n for n in order if n != elim]
        eng.prove([v.name for v in pr.dimensions] == rest, "projection scope is not the scope minus the eliminated variable")
        cmp = F.le if mode == "min" else F.ge
        conds = []
        for a in doms[rest[0]]:
            for b in doms[rest[1]]:
                got = pr(**{rest[0]: a, rest[1]: b})
                row = [tab[tuple({rest[0]: a, rest[1]: b, elim: e}[n] for n in order)] for e in doms[elim]]
                conds.append(F.and_([cmp(got, c) for c in row]))
                conds.append(F.or_([_eq(got, c) for c in row]))
        eng.notes["outcome"] = {}
        eng.prove(F.and_(conds), "projection entry is not the optimum over the eliminated variable")
    elif op == "proj":
        mode = p["mode"]
        x = Variable("x", Domain("d", "", [0, 1]))
        y = Variable("y", Domain("d", "", [0, 1, 2]))
        tab = {(i, j): _entry(eng, "u%d%d" % (i, j), kinds) for i in range(2) for j in range(3)}
        rel = NAryMatrixRelation([x, y], [[tab[(i, j)] for j in range(3)] for i in range(2)], name="u")
        pr = projection(rel, y, mode)
        cmp = F.le if mode == "min" else F.ge
        conds = []
        for i in range(2):
            got = pr(x=i)
            row = [tab[(i, j)] for j in range(3)]
            conds.append(F.and_([cmp(got, c) for c in row]))
            conds.append(F.or_([_eq(got, c) for c in row]))
        eng.notes["outcome"] = {}
        eng.prove(F.and_(conds), "projection entry is not the optimum over the eliminated variable")


def _entry(eng, name, kinds):
    if kinds:
        k = eng.pick(kinds, "kind_" + name)
        if k == "inf":
            return float("inf")
        if k == "-inf":
            return float("-inf")
    return eng.sym_int(name, -BIG, BIG)


def run_dsa(eng, p):
    algo = p["algo"]
    begin(eng, random_modules=["pydcop.algorithms." + algo, "pydcop.infrastructure.computations", "pydcop.dcop.relations"])
    inst = Instance(eng, p["spec"])
    params = {}
    if algo == "adsa":
        import pydcop.algorithms.adsa as _adsa
        _adsa.print = lambda *a, **k: None
    if algo == "dsa":
        params = {"variant": p["variant"], "stop_cycle": p["stop"]}
    elif algo == "adsa":
        params = {"variant": p["variant"]}
    cg, comps = build_computations(inst.dcop, algo, inst.mode, params)
    bench = Bench(eng)
    for c in comps:
        bench.add(c)
    first = set()
    moves = []

    def on_select(name, val, cost, cycle):
        comp = bench.comps[name]
        if name not in first:
            first.add(name)            # initial random value
            return
        if algo == "dsa":
            view = dict(comp.current_cycle)
        elif algo == "adsa":
            view = dict(comp.current_assignment)
        else:
            view = dict(comp._verif_view)
        moves.append((name, val, view))
    bench.on_select = on_select
    if algo == "dsatuto":
        for c in comps:
            orig = c.on_new_cycle

            def wrapped(messages, cycle_id, _c=c, _o=orig):
                _c._verif_view = {s: m.value for s, (m, t) in messages.items()}
                return _o(messages, cycle_id)
            c.on_new_cycle = wrapped
    if p.get("upfront"):
        bench.start_all()
    budget = {"dsa": 60, "adsa": 0, "dsatuto": 0}[algo]
    if algo == "dsa":
        status = bench.run(max_steps=budget)
    elif algo == "adsa":
        # periodic actions: canonical timing -- every period, each computation ticks once (alphabetical order), and all
        # messages are delivered (in any order) before the next period
        bench.ticks_enabled = False
        bench.start_all()
        status = "quiescent"
        for _ in range(p["ticks"] + 1):
            for n in list(bench.comps):
                if bench.ticks.get(n):
                    bench.fire(("tick", n))
            status = bench.run(max_steps=bench.steps + 20)
    else:
        status = bench.run(max_steps=200, stop=lambda: all(c.cycle_count >= p["rounds"] for c in comps))
    eng.notes["outcome"] = {"status": status, "moves": [(n, v) for n, v, _ in moves],
                            "values": {n: c.current_value for n, c in bench.comps.items()}}
    conds = []
    cmp = F.le if inst.mode == "min" else F.ge
    for name, val, view in moves:
        dom = inst.domains[name]
        if val not in dom:
            eng.fail("DSA moved to a value outside the domain", detail=str((name, val)))
            continue
        missing = [v for cn, sc in inst.scopes.items() if name in sc for v in sc if v != name and v not in view]
        if missing:
            eng.fail("DSA moved without a full neighbour view", detail=str((name, view)))
            continue

        def local(d):
            a = dict(view)
            a[name] = d
            terms = [inst.tables[cn][tuple(inst.domains[v].index(a[v]) for v in sc)]
                     for cn, sc in inst.scopes.items() if name in sc]
            if name in inst.vcosts:
                terms.append(inst.vcosts[name][d])
            tot = 0
            for t in terms:
                tot = tot + t
            return tot
        got = local(val)
        conds.append(F.and_([cmp(got, local(d)) for d in dom]))
    eng.prove(F.and_(conds) if conds else True, "DSA moved to a value that is not a best response to the neighbour values it held",
              detail=str(eng.notes["outcome"]))
