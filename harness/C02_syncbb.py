"""C02 -- SyncBB finds the optimum of every binary-constraint DCOP."""
from harness.common import begin, build_computations, region, Bench, F
from symex.catalogue import Instance, spec, BIG

EXPLANATION = ("Real SyncBBComputation objects on the real ordered graph; binary cost tables are symbolic integers; start "
               "order and FIFO delivery order solver-chosen. Oracle: every computation finished, and the values held at "
               "quiescence form an assignment whose cost is the brute-force optimum.")
ASSUMPTIONS = [
    "cost-table entries are integers in the stated range; numpy storage replaced by object arrays",
    "delivery model: any interleaving keeping each sender->receiver channel FIFO (sleep-set reduced)",
    "a run not quiescent after 400 transitions is reported as non-termination",
]
BOUNDS = {
    "quick": "pair and chain-3 also with initial values declared on every variable; pair, chain-3, pair + unconstrained variable; domain 2; min and max; costs in [-2^40,2^40] and non-negative variants",
    "thorough": "quick + triangle, domain 3 on the pair, chain-3 with one domain of size 3; bug hunting only (cpu budget): star-3, two pairs, chain-3 with domain 3",
}
OUTSIDE = "more than 4 variables, domain above 3, non-binary constraints (unsupported by the algorithm), float costs"
CAP_S = {"quick": 900, "thorough": 5400}


def jobs(tier):
    out = []
    structs = ["pair", "chain3", "pair_iso", "pair_isomid"] + (["triangle"] if tier == "thorough" else [])
    for s in structs:
        for mode in ("min", "max"):
            for rng in ("any", "nonneg"):
                out.append({"name": "%s-%s-%s" % (s, mode, rng), "spec": spec(s, mode), "range": rng})
    # variables declared with an initial value (the last value of their domain): the search must still cover the whole domain
    for s in ("pair", "chain3"):
        for mode in ("min", "max"):
            out.append({"name": "%s-init-%s-nonneg" % (s, mode), "range": "nonneg",
                        "spec": spec(s, mode, initial={v: 1 for v in ("x", "y", "z")[:2 if s == "pair" else 3]})})
    if tier == "thorough":
        # bug-hunting jobs (budgeted, not part of the verdict unless their frontier empties): > 10^5 paths each
        for s in ["star3", "two_pairs"]:
            for mode in ("min", "max"):
                out.append({"name": "%s-%s-nonneg" % (s, mode), "spec": spec(s, mode), "range": "nonneg", "hunt_cpu_s": 1500})
        for mode in ("min", "max"):
            out.append({"name": "chain3-dom3-%s-nonneg" % mode, "spec": spec("chain3", mode, dom=3), "range": "nonneg",
                        "hunt_cpu_s": 1500})
        for mode in ("min", "max"):
            out.append({"name": "pair-dom3-%s-nonneg" % mode, "spec": spec("pair", mode, dom=3), "range": "nonneg"})
            # chain-3 with all domains of size 3 does not exhaust (> 0.5 million paths in 25 min): one variable of size 3
            out.append({"name": "chain3-dom322-%s-nonneg" % mode, "spec": spec("chain3", mode, dom={"x": 3}), "range": "nonneg"})
    return out


def known_regions(eng, inst, p):
    # known finding: branch-and-bound pruning on partial sums is unsound when some cost is negative (min mode)
    if inst.mode != "min":
        return []
    entries = [v for tab in inst.tables.values() for v in tab.values()]
    return region(eng, "C02-min-negative-costs", F.or_([F.lt(e, 0) for e in entries]))


def run(eng, p):
    begin(eng, random_modules=["pydcop.algorithms.syncbb"])
    lo = 0 if p["range"] == "nonneg" else -BIG
    inst = Instance(eng, p["spec"], lo=lo, hi=BIG)
    cg, comps = build_computations(inst.dcop, "syncbb", inst.mode)
    bench = Bench(eng)
    for c in comps:
        bench.add(c)
    regs = known_regions(eng, inst, p)
    try:
        status = bench.run(max_steps=400)
    except Exception as e:
        import traceback
        eng.fail("exception %s: %s" % (type(e).__name__, e), detail=traceback.format_exc(limit=-4))
        return
    values = {n: c.current_value for n, c in bench.comps.items()}
    eng.notes["outcome"] = {"status": status, "values": values, "finished": sorted(bench.finished)}
    # the listed finding (pruning with negative costs) concerns optimality only: everything else is checked without region
    eng.prove(status == "quiescent", "SyncBB did not terminate within 400 transitions")
    first = sorted(bench.comps)[0]
    eng.prove(sorted(set(bench.finished)) == sorted(bench.comps), "terminate did not reach every computation",
              detail=str(eng.notes["outcome"]))
    in_dom = all(values[v] in inst.domains[v] for v in inst.var_names())
    eng.prove(in_dom, "held values do not form a complete assignment over the domains", detail=str(values))
    if in_dom:
        eng.prove(inst.is_optimal(values), "assignment held at termination is not optimal", regions=regs, detail=str(values))
