"""C19 -- messages held across start or pause keep their original order."""
import traceback

from harness.common import begin

EXPLANATION = ("One real MessagePassingComputation subclass is driven through a solver-chosen history of operations "
               "{receive from sender i, post to target j, pause, resume, start}; messages it re-injects to itself with "
               "priority 19 are delivered before any newer message (what the agent's priority queue gives). Oracle: handler "
               "invocations == receptions, once each, in reception order; sender calls == posts, once each, in posting order. "
               "A second computation uses SynchronousComputationMixin (3 neighbours, solver-chosen targets of its start and "
               "cycle-1 messages) under histories of {pause, resume, start, receive the next cycle-0 message}: every neighbour "
               "gets exactly one message per cycle, in posting order, with the right cycle id.")
ASSUMPTIONS = [
    "re-injected messages (priority below the default 20, addressed to the computation itself) are handled before any later reception, in injection order -- the (priority, counter) order of Messaging, checked by C18",
    "messages are opaque tokens; 2 senders and 2 targets; the time stamp of each reception is an arbitrary real (symbolic)",
]
BOUNDS = {"quick": "every history of <= 6 operations over {recv s0, recv s1, post t0, post t1, pause, resume, start}, with pairwise different messages and with messages that all compare equal; synchronous computation: histories of <= 5 operations, cycles 0 and 1",
          "thorough": "every history of <= 8 operations; synchronous computation: <= 7 operations"}
OUTSIDE = "longer histories, a stop()/restart cycle, periodic actions"
CAP_S = {"quick": 900, "thorough": 7200}
OPS = ["recv0", "recv1", "post0", "post1", "pause", "resume", "start"]


def jobs(tier):
    out = [{"name": "histories-%d" % n, "length": n} for n in ([6] if tier == "quick" else [6, 8])]
    # the hand-over of a re-injected message is an operation of its own: pause / resume / start may come in between
    out.append({"name": "histories-lane-%d" % (6 if tier == "quick" else 7), "length": 6 if tier == "quick" else 7, "lane_ops": True})
    # messages that compare equal (same type and content): each reception / post is still a message of its own
    out.append({"name": "histories-equal-%d" % (6 if tier == "quick" else 7), "length": 6 if tier == "quick" else 7, "equal_content": True})
    # a synchronous computation (SynchronousComputationMixin): what start() and a cycle switch post while paused
    out.append({"name": "sync-histories-%d" % (5 if tier == "quick" else 7), "length": 5 if tier == "quick" else 7, "sync": True})
    return out


def run_sync(eng, p):
    from pydcop.infrastructure.computations import (MessagePassingComputation, SynchronousComputationMixin, Message,
                                                    SynchronizationMsg, register)
    neighbours = ["n0", "n1", "n2"]
    subsets = [[], ["n0"], ["n1"], ["n2"], ["n1", "n0"], ["n0", "n2"], ["n2", "n1"], ["n2", "n0", "n1"]]
    first = subsets[eng.choose(len(subsets), "start_targets")]
    second = subsets[eng.choose(len(subsets), "cycle1_targets")]
    cycles = []

    class Sync(SynchronousComputationMixin, MessagePassingComputation):
        @property
        def neighbors(self):
            return list(neighbours)

        def on_start(self):
            for t in first:
                self.post_msg(t, Message("tok", "start"))

        @register("tok")
        def _on_tok(self, sender, msg, t):
            pass

        def on_new_cycle(self, messages, cycle_id):
            cycles.append((cycle_id, sorted(messages)))
            return [(t, Message("tok", "c1")) for t in second]

    comp = Sync("c")
    sent, lane = [], []

    def sender(src, dst, msg, prio=None, on_error=None):
        if dst == "c" and prio is not None and prio < 20:
            lane.append((src, msg))
        else:
            sent.append((dst, msg.type, msg.cycle_id))
    comp.message_sender = sender
    hist, started, to_recv = [], False, list(neighbours)
    n = eng.choose(p["length"], "length") + 1

    def recv():
        src = to_recv.pop(0)
        m = SynchronizationMsg() if src != "n1" else Message("tok", "in")
        m.cycle_id = 0
        comp.on_message(src, m, 0.0)
    try:
        for step in range(n):
            ops = ["pause", "resume"] + ([] if started else ["start"]) + (["recv"] if to_recv else [])
            op = ops[eng.choose(len(ops), "op_%d" % step)]
            hist.append(op)
            if op == "pause":
                comp.pause(True)
            elif op == "resume":
                comp.pause(False)
            elif op == "start":
                started = True
                comp.start()
            else:
                recv()
            while lane:
                src, msg = lane.pop(0)
                comp.on_message(src, msg, float(step))
        if not started:
            comp.start()
        comp.pause(False)
        while lane or to_recv:
            if lane:
                src, msg = lane.pop(0)
                comp.on_message(src, msg, float(n))
            else:
                recv()
    except Exception as e:
        eng.notes["outcome"] = {"history": hist, "exc": str(e)}
        eng.fail("exception %s: %s" % (type(e).__name__, e), detail=traceback.format_exc(limit=-4))
        return
    expected = []
    for cyc, targets in ((0, first), (1, second)):
        expected += [(t, "tok", cyc) for t in targets]
        expected += [(t, "cycle_sync", cyc) for t in neighbours if t not in targets]
    eng.notes["outcome"] = {"history": hist, "sent": sent, "cycles": cycles}
    eng.prove(cycles == [(0, ["n1"])], "the cycle-0 messages (possibly held) were not handed to on_new_cycle exactly once",
              detail=str({"history": hist, "cycles": cycles}))
    eng.prove(sent == expected, "messages posted (possibly while paused) not sent exactly once in posting order",
              detail=str({"history": hist, "expected": expected, "sent": sent}))


def run(eng, p):
    begin(eng, numpy_facade=False)
    if p.get("sync"):
        return run_sync(eng, p)
    from pydcop.infrastructure.computations import MessagePassingComputation, Message, register

    handled = []

    class Probe(MessagePassingComputation):
        @register("tok")
        def _on_tok(self, sender, msg, t):
            handled.append((sender, msg.content))

    comp = Probe("c")
    sent, lane = [], []

    def sender(src, dst, msg, prio=None, on_error=None):
        if dst == "c" and prio is not None and prio < 20:
            lane.append((src, msg))
        else:
            sent.append((dst, msg.content))
    comp.message_sender = sender
    received, posted, hist = [], [], []
    held_again = [False]
    started = False
    n = eng.choose(p["length"], "length") + 1
    try:
        for step in range(n):
            ops = list(OPS)
            if started:
                ops.remove("start")
            if p.get("lane_ops") and lane:
                # re-injected messages wait in the agent's queue ahead of any newer reception (priority 19 < 20), but
                # management orders (pause / resume, priority 10) and the start can still be handled before them
                ops = [o for o in ops if not o.startswith("recv")] + ["lane"]
            op = ops[eng.choose(len(ops), "op_%d" % step)]
            hist.append(op)
            if op == "lane":
                src, msg = lane.pop(0)
                if comp.is_paused or not comp.is_running:
                    held_again[0] = True        # a re-injected message is handed over while paused / not started: held again
                comp.on_message(src, msg, float(step))
                continue
            if op.startswith("recv"):
                tok = "same" if p.get("equal_content") else "m%d" % len(received)
                received.append(("s" + op[-1], tok))
                # the time stamp handed to on_message is the time the message was queued, unrelated to the hand-over order
                # (priorities): an arbitrary real
                comp.on_message("s" + op[-1], Message("tok", tok), eng.sym_real("t_%d" % len(received), 0, 1000))
            elif op.startswith("post"):
                tok = "same" if p.get("equal_content") else "p%d" % len(posted)
                posted.append(("t" + op[-1], tok))
                comp.post_msg("t" + op[-1], Message("tok", tok))
            elif op == "pause":
                comp.pause(True)
            elif op == "resume":
                comp.pause(False)
            elif op == "start":
                started = True
                comp.start()
            while lane and not p.get("lane_ops"):   # priority lane: before anything newer
                src, msg = lane.pop(0)
                comp.on_message(src, msg, float(step))
        # finally let everything out: start if needed, resume
        if not started:
            comp.start()
        comp.pause(False)
        while lane:
            src, msg = lane.pop(0)
            comp.on_message(src, msg, float(n))
    except Exception as e:
        eng.notes["outcome"] = {"history": hist, "exc": str(e)}
        eng.fail("exception %s: %s" % (type(e).__name__, e), detail=traceback.format_exc(limit=-4))
        return
    eng.notes["outcome"] = {"history": hist, "handled": handled, "sent": sent}
    from harness.common import region
    eng.prove(handled == received, "held/received messages not handled exactly once in reception order",
              regions=region(eng, "C19-reinjected-message-held-again", held_again[0]), detail=str({"history": hist, "received": received, "handled": handled}))
    eng.prove(sent == posted, "messages posted (possibly while paused) not sent exactly once in posting order",
              detail=str({"history": hist, "posted": posted, "sent": sent}))
