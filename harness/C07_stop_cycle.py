"""C07 -- cycle-bounded local search finishes after stop_cycle cycles."""
from harness.common import region, F
from harness.mgm_common import run_mgm, outcome
from symex.catalogue import spec

EXPLANATION = ("Real MGM, MGM2 and DSA computations with stop_cycle k chosen in {1,2,3}; start order and FIFO delivery order "
               "solver-chosen (start transitions interleaved with deliveries, sleep-set reduced), tables and random draws "
               "symbolic. Oracle at quiescence: no handler raised, every computation reported finished, with cycle_count == k "
               "or no neighbour, and no message is left undelivered.")
ASSUMPTIONS = [
    "costs are integers in [-2^40, 2^40]; numpy storage replaced by object arrays; random draws arbitrary",
    "delivery model: per-channel FIFO interleavings, sleep-set reduced (handlers touch only their own computation)",
    "a run not quiescent after the step budget (150) is reported as a violation (non-termination)",
]
BOUNDS = {
    "quick": "k = 2: MGM, DSA (MGM2 in thorough) on a pair joined by two constraints; k in {1,2,3}: MGM, DSA, MGM2 on a lone variable (without constraint / with a unary constraint) and MGM on a pair where one variable also has a unary constraint (k<=2; DSA and MGM2 in thorough); MGM pair, pair+isolated; DSA pair, pair+isolated; MGM2 pair (k<=2, all schedules); chain-3 with k<=2 for MGM (all schedules) and DSA (costs restricted to {0,1}, canonical schedule); min mode (max on pairs); chain-3 with zero tables, k in {2,3}, all FIFO interleavings for DSA and MGM",
    "thorough": "quick + DSA chain-3 with unrestricted costs (k=1 all schedules, k=2 canonical), chain-3 k=3 (canonical), triangle (k<=2), ternary constraint, MGM2 chain-3 (k<=2, canonical schedule) and MGM2 pair k=3",
}
OUTSIDE = "more than 3 computations, domain above 2, stop_cycle above 3, DSA variants B/C on chains"
CAP_S = {"quick": 1200, "thorough": 10800}


def jobs(tier):
    out = []
    def add(algo, s, ks, mode="min", **kw):
        out.append(dict({"name": "%s-%s-k%s-%s%s" % (algo, s, "".join(map(str, ks)), mode, ("-fixed" if kw.get("fixed") else "") + ("-r01" if kw.get("range") else "")), "algo": algo, "spec": spec(s, mode),
                         "ks": ks}, **kw))
    for algo in ("mgm", "dsa"):
        add(algo, "pair", [1, 2, 3])
        add(algo, "pair", [1, 2, 3], "max")
        add(algo, "pair_iso", [1, 2, 3])
    # variables without neighbour: no constraint at all, or unary constraints only (they must still report their end)
    for algo in ("mgm", "dsa", "mgm2"):
        add(algo, "single", [1, 2, 3])
        add(algo, "unary", [1, 2, 3])
        if algo == "mgm" or tier == "thorough":
            add(algo, "pair_unary", [1, 2])
    # two constraints over the same pair of variables (second table pinned to 0 to keep the jobs small)
    zero_c1 = {"c1_%d%d" % (i, j): 0 for i in range(2) for j in range(2)}
    for algo in ("mgm", "dsa") + (("mgm2",) if tier == "thorough" else ()):
        out.append({"name": "%s-pair_dbl-k2-min" % algo, "algo": algo, "spec": spec("pair_dbl", "min", pins=zero_c1), "ks": [2]})
    add("mgm", "chain3", [1, 2])
    add("dsa", "chain3", [1, 2], fixed=True, upfront=True, range=[0, 1])
    if tier == "thorough":
        add("dsa", "chain3", [1])
        add("dsa", "chain3", [2], fixed=True, upfront=True)
    # scheduling-focused jobs: tables pinned to 0 (nobody ever wants to move, so no random draw), every start order and
    # FIFO interleaving explored with more cycles
    zero3 = {"c0_%d%d" % (i, j): 0 for i in range(2) for j in range(2)}
    zero3.update({"c1_%d%d" % (i, j): 0 for i in range(2) for j in range(2)})
    out.append({"name": "dsa-chain3-k23-zero-allsched", "algo": "dsa", "spec": spec("chain3", "min", pins=zero3), "ks": [2, 3],
                "upfront": True})
    out.append({"name": "mgm-chain3-k3-zero-allsched", "algo": "mgm", "spec": spec("chain3", "min", pins=zero3), "ks": [3],
                "upfront": True})
    # a hub with three neighbours, zero tables (nobody moves), every interleaving of the deliveries to the hub: several
    # neighbours can be one cycle ahead of the hub at the same time
    zero_star = {"c%d_%d%d" % (k, i, j): 0 for k in range(3) for i in range(2) for j in range(2)}
    if tier == "thorough":      # ~3 * 10^5 paths: thorough tier only
        out.append({"name": "mgm-star3-k3-zero-hubsched", "algo": "mgm", "spec": spec("star3", "min", pins=zero_star), "ks": [3],
                    "upfront": True, "free_targets": ["x"], "max_steps": 300, "hunt_cpu_s": 3000})
    add("mgm2", "pair", [1, 2])
    add("mgm2", "pair", [1, 2], "max")
    # MGM2 on a chain where only a coordinated move helps (tables pinned), every FIFO interleaving of the deliveries to the
    # hub y (the other computations on their canonical order), random draws free
    coord = {"c0_00": 10, "c0_01": 10, "c0_10": 10, "c0_11": 0, "c1_00": 0, "c1_01": 1, "c1_10": 1, "c1_11": 0}
    out.append({"name": "mgm2-chain3-coord-hubsched-k2", "algo": "mgm2", "spec": spec("chain3", "min", pins=coord), "ks": [2],
                "upfront": True, "free_targets": ["y"], "max_steps": 200})
    if tier == "thorough":
        for algo in ("mgm", "dsa"):
            add(algo, "chain3", [3], fixed=True, upfront=True)
            add(algo, "triangle", [1, 2])
            add(algo, "ternary", [1, 2, 3])
        add("mgm2", "pair", [3])
        add("mgm2", "pair_iso", [1, 2])
        add("mgm2", "chain3", [1, 2], fixed=True, upfront=True)
        add("dsa", "pair", [1, 2], params={"variant": "B"})
        add("dsa", "pair", [1, 2], params={"variant": "C"})
    return out


def run(eng, p):
    k = eng.pick(p["ks"], "stop_cycle")
    q = dict(p)
    q["stop"] = k
    r = run_mgm(eng, q)
    inst, bench = r["inst"], r["bench"]
    eng.notes["outcome"] = dict(outcome(r), k=k)
    if r["exc"]:
        eng.fail("a handler raised %s: %s" % (type(r["exc"][0]).__name__, r["exc"][0]), detail=r["exc"][1])
        return
    eng.prove(r["status"] == "quiescent", "not quiescent within the step budget (messages keep flowing)",
              detail=str(eng.notes["outcome"]))
    missing = [n for n in bench.comps if n not in bench.finished]
    eng.prove(not missing, "computation(s) never reported finished (left waiting)", detail=str((missing, eng.notes["outcome"])))
    wrong = [(n, c.cycle_count) for n, c in bench.comps.items() if r["adj"][n] and n in bench.finished and c.cycle_count != k]
    eng.prove(not wrong, "computation finished after a number of cycles different from stop_cycle", detail=str((k, wrong)))
    dup = [n for n in bench.comps if bench.finished.count(n) > 1]
    eng.prove(not dup, "computation reported finished more than once", detail=str(dup))
    eng.prove(not bench.pending(), "messages left undelivered at quiescence", detail=str(bench.pending()))
