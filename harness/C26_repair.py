"""C26 -- repair DCOP constraints and candidate info encode the repair rules."""
import itertools
import traceback

from harness.common import begin, F
from symex.catalogue import Instance, spec

EXPLANATION = ("(a) reparation.create_*_constraint are called with symbolic footprints, remaining capacity, hosting costs and "
               "communication costs; every binary assignment of the repair variables is chosen by the engine and the constraint "
               "value is compared with the defining sum / '0 iff' rule by one z3 query. (b) removal._removal_* are run on real "
               "Discovery states built by the engine (hosting of each computation, replica sets, departed subset): candidates == "
               "surviving agents holding a replica of an orphaned computation, fixed neighbours hosted on surviving agents.")
ASSUMPTIONS = ["numeric parameters are symbolic integers in [0, 2^20]; binary assignments are concrete (products stay linear)",
               "Discovery state is filled locally with publish=False (no directory)"]
BOUNDS = {"quick": "(a) 1-3 binary variables per constraint (hosted: 1-3 candidate agents; capacity / hosting: 1-3 candidate computations), and a communication constraint with two fixed and two orphaned neighbours sharing agents (5 binary variables, evaluated twice in a row); (b) chain of 3 computations, 3 agents, every hosting map, replica sets of size <= 2, every non-empty departed subset of size <= 2",
          "thorough": "(a) up to 4 variables; (b) 4 agents, triangle graph"}
OUTSIDE = "more than 4 agents / 4 computations; discovery states inconsistent with the directory"
CAP_S = {"quick": 900, "thorough": 5400}
LIM = 2 ** 20


def jobs(tier):
    out = [{"name": "hosted", "kind": "hosted", "n": 3}, {"name": "capacity", "kind": "capacity", "n": 3},
           {"name": "hosting", "kind": "hosting", "n": 3}, {"name": "comm", "kind": "comm"}, {"name": "comm2", "kind": "comm2"},
           {"name": "removal-chain3-a3", "kind": "removal", "struct": "chain3", "agents": 3}]
    if tier == "thorough":
        out += [{"name": "hosted-4", "kind": "hosted", "n": 4}, {"name": "capacity-4", "kind": "capacity", "n": 4},
                {"name": "removal-triangle-a4", "kind": "removal", "struct": "triangle", "agents": 4}]
    return out


def run(eng, p):
    begin(eng, numpy_facade=False)
    import pydcop.reparation as rep
    from pydcop.dcop.objects import BinaryVariable
    k = p["kind"]
    try:
        if k == "hosted":
            agts = ["a%d" % i for i in range(eng.choose(p["n"], "candidates") + 1)]       # 1 .. n candidate agents
            bv = {("c", a): BinaryVariable("B_c_" + a) for a in agts}
            cons = rep.create_computation_hosted_constraint("c", bv)
            asg = {v.name: eng.choose(2, "b_" + v.name) for v in bv.values()}
            val = cons(**asg)
            eng.notes["outcome"] = {"asg": asg, "val": val}
            eng.prove((val == 0) == (sum(asg.values()) == 1), "hosted constraint is not 0 iff exactly one candidate hosts the computation",
                      detail=str((asg, val)))
        elif k in ("capacity", "hosting"):
            comps = ["c%d" % i for i in range(eng.choose(p["n"], "computations") + 1)]     # 1 .. n candidate computations
            bv = {(c, "a1"): BinaryVariable("B_%s_a1" % c) for c in comps}
            par = {c: eng.sym_int(("foot_" if k == "capacity" else "host_") + c, 0, LIM) for c in comps}
            asg = {v.name: eng.choose(2, "b_" + v.name) for v in bv.values()}
            tot = F.sum([par[c] for c in comps if asg["B_%s_a1" % c]])
            if k == "capacity":
                cap = eng.sym_int("remaining", 0, LIM)
                cons = rep.create_agent_capacity_constraint("a1", cap, lambda c: par[c], bv)
                val = cons(**asg)
                eng.notes["outcome"] = {"asg": asg, "val": val}
                eng.prove(F.iff(F.le(tot, cap), val == 0), "capacity constraint is not 0 iff the selected footprints fit the remaining capacity",
                          detail=str((asg, val)))
            else:
                cons = rep.create_agent_hosting_constraint("a1", lambda c: par[c], bv)
                val = cons(**asg)
                eng.notes["outcome"] = {"asg": asg}
                eng.prove(F.eq(val, tot), "hosting constraint is not the sum of the hosting costs of the selected computations", detail=str(asg))
        elif k == "comm":
            # candidate c on agent a1; fixed neighbour f on a3; candidate neighbour n that may go to a1 or a2
            bv = {("c", "a1"): BinaryVariable("B_c_a1"), ("n", "a1"): BinaryVariable("B_n_a1"), ("n", "a2"): BinaryVariable("B_n_a2")}
            info = (["a1", "a2"], {"f": "a3"}, {"n": ["a1", "a2"]})
            cost = {("f", "a3"): eng.sym_int("comm_f_a3", 0, LIM), ("n", "a1"): eng.sym_int("comm_n_a1", 0, LIM),
                    ("n", "a2"): eng.sym_int("comm_n_a2", 0, LIM)}
            cons = rep.create_agent_comp_comm_constraint("a1", "c", info, lambda cand, v, va: cost[(v, va)], bv)
            asg = {v.name: eng.choose(2, "b_" + v.name) for v in bv.values()}
            val = cons(**asg)
            exp = 0
            if asg["B_c_a1"]:
                exp = cost[("f", "a3")] + F.sum([cost[("n", a)] for a in ("a1", "a2") if asg["B_n_" + a]])
            eng.notes["outcome"] = {"asg": asg}
            eng.prove(sorted(v.name for v in cons.dimensions) == sorted(asg), "communication constraint has an unexpected scope")
            eng.prove(F.eq(val, exp), "communication constraint is not the defining sum over fixed and candidate neighbours", detail=str(asg))
        elif k == "comm2":
            # several neighbours tied to the same agent (two fixed neighbours on a2, two orphaned neighbours with candidates
            # a2 / a3), per-(neighbour, agent) symbolic costs; the same constraint object is evaluated twice in a row
            bv = {("c", "a1"): BinaryVariable("B_c_a1"), ("n1", "a2"): BinaryVariable("B_n1_a2"), ("n1", "a3"): BinaryVariable("B_n1_a3"),
                  ("n2", "a3"): BinaryVariable("B_n2_a3"), ("n2", "a2"): BinaryVariable("B_n2_a2")}
            info = (["a1", "a2", "a3"], {"f1": "a2", "f2": "a2"}, {"n1": ["a2", "a3"], "n2": ["a3", "a2"]})
            pairs = [("f1", "a2"), ("f2", "a2"), ("n1", "a2"), ("n1", "a3"), ("n2", "a3"), ("n2", "a2")]
            cost = {pr: eng.sym_int("comm_%s_%s" % pr, 0, LIM) for pr in pairs}
            cons = rep.create_agent_comp_comm_constraint("a1", "c", info, lambda cand, v, va: cost[(v, va)], bv)
            eng.prove(sorted(v.name for v in cons.dimensions) == sorted(v.name for v in bv.values()),
                      "communication constraint has an unexpected scope")
            for rnd in (1, 2):
                asg = {v.name: eng.choose(2, "b%d_%s" % (rnd, v.name)) for v in bv.values()}
                val = cons(**asg)
                exp = 0
                if asg["B_c_a1"]:
                    exp = cost[("f1", "a2")] + cost[("f2", "a2")] + F.sum(
                        [cost[(n, a)] for (n, a) in pairs[2:] if asg["B_%s_%s" % (n, a)]])
                eng.notes["outcome"] = {"asg": asg}
                eng.prove(F.eq(val, exp), "communication constraint is not the defining sum over fixed and candidate neighbours",
                          detail=str(asg))
        else:
            run_removal(eng, p)
    except Exception as e:
        eng.fail("exception %s: %s" % (type(e).__name__, e), detail=traceback.format_exc(limit=-4))


def run_removal(eng, p):
    import importlib
    from pydcop.infrastructure.discovery import Discovery
    from pydcop.reparation import removal
    inst = Instance(eng, spec(p["struct"], "min"), lo=0, hi=0)
    cg = importlib.import_module("pydcop.computations_graph.constraints_hypergraph").build_computation_graph(inst.dcop)
    comps = [n.name for n in cg.nodes]
    agts = ["a%d" % i for i in range(p["agents"])]
    disco = Discovery("a0", "addr")
    for a in agts:
        disco.register_agent(a, "addr_" + a, publish=False)
    host = {}
    for c in comps:
        host[c] = agts[eng.choose(len(agts), "host_" + c)]
        disco.register_computation(c, host[c], publish=False)
    replicas = {}
    for c in comps:
        others = [a for a in agts if a != host[c]]
        kk = eng.choose(2 ** len(others), "replicas_" + c)
        replicas[c] = {a for i, a in enumerate(others) if (kk >> i) & 1}
        if len(replicas[c]) > 2:
            from symex.engine import PathCut
            raise PathCut()
        for a in replicas[c]:
            disco.register_replica(c, a, publish=False)
    kd = eng.choose(2 ** len(agts) - 1, "departed") + 1
    departed = [a for i, a in enumerate(agts) if (kd >> i) & 1]
    if len(departed) > 2:
        from symex.engine import PathCut
        raise PathCut()
    orphaned = [c for c in comps if host[c] in departed]
    eng.notes["outcome"] = {"host": host, "replicas": {c: sorted(r) for c, r in replicas.items()}, "departed": departed}
    got_orph = removal._removal_orphaned_computations(departed, disco)
    eng.prove(sorted(got_orph) == sorted(orphaned), "orphaned computations are not those hosted on departed agents",
              detail=str((got_orph, orphaned)))
    exp_cand = sorted({a for c in orphaned for a in replicas[c] if a not in departed})
    got_cand = removal._removal_candidate_agents(departed, disco)
    eng.prove(sorted(got_cand) == exp_cand and len(set(got_cand)) == len(got_cand),
              "candidate agents are not exactly the surviving agents holding a replica of an orphaned computation",
              detail=str((got_cand, exp_cand)))
    neigh = {c: {u for sc in inst.scopes.values() if c in sc for u in sc if u != c} for c in comps}
    for a in exp_cand:
        info = removal._removal_candidate_agt_info(a, departed, cg, disco)
        exp_comps = sorted(c for c in orphaned if a in replicas[c])
        ok = sorted(info) == exp_comps
        why = None if ok else ("computations for %s" % a, sorted(info), exp_comps)
        for c in exp_comps:
            if not ok:
                break
            cands, fixed, cneigh = info[c]
            if sorted(cands) != sorted(x for x in replicas[c] if x not in departed):
                ok, why = False, ("candidates of %s" % c, cands)
            if fixed != {n: host[n] for n in neigh[c] if n not in orphaned}:
                ok, why = False, ("fixed neighbours of %s" % c, fixed)
            if any(v in departed for v in fixed.values()):
                ok, why = False, ("fixed neighbour hosted on a departed agent", fixed)
            if {n: sorted(v) for n, v in cneigh.items()} != {n: sorted(x for x in replicas[n] if x not in departed)
                                                               for n in neigh[c] if n in orphaned}:
                ok, why = False, ("candidate neighbours of %s" % c, cneigh)
        eng.prove(ok, "repair information for a candidate agent does not encode the repair rules", detail=str((why, eng.notes["outcome"])))
