"""C22 -- orchestrated solve terminates and reports a true optimal result (orchestrator accounting, partial)."""
import traceback

from harness.common import begin, build_computations, Bench, F
from symex.catalogue import Instance, spec

EXPLANATION = ("The real Orchestrator / AgentsMgt object is constructed without threads and fed, in every per-agent-FIFO "
               "interleaving, with the ValueChangeMessage / ComputationFinishedMessage stream that a real DPOP run on the bench "
               "produces through the same hooks an orchestrated agent installs (value_selection and finished), for several "
               "distributions of the computations over agents; cost tables are symbolic. Oracle: the stop order is issued exactly "
               "when the last computation has finished; global_metrics('END') covers every variable, its cost and violation equal "
               "DCOP.solution_cost of that assignment (z3), and the assignment is optimal (z3, brute-force definition).")
ASSUMPTIONS = [
    "PARTIAL: thread scheduling, timeouts, run.py / solve command, process mode and the agents' own management computation are outside; "
    "only the orchestrator's accounting (AgentsMgt handlers, global_metrics) is executed",
    "messages of one agent reach the orchestrator in the order they were produced (FIFO per agent); agents interleave arbitrarily",
    "cost tables are symbolic integers in [-2^40, 2^40]; numpy storage replaced by object arrays",
]
BOUNDS = {"quick": "DPOP on pair and chain-3 (min and max), distributions: one agent per computation / all on one agent / first two together; canonical DPOP schedule, all interleavings of the management messages",
          "thorough": "quick + triangle and pair with variable cost, all DPOP schedules on the pair"}
OUTSIDE = "real threads, timeouts, the solve CLI, other algorithms than DPOP"
CAP_S = {"quick": 900, "thorough": 5400}


def jobs(tier):
    out = []
    for s in (["pair", "chain3"] + (["triangle", "pair_vcost"] if tier == "thorough" else [])):
        for mode in ("min", "max"):
            out.append({"name": "%s-%s" % (s, mode), "spec": spec(s, mode), "fixed": True})
    if tier == "thorough":
        out.append({"name": "pair-min-allsched", "spec": spec("pair", "min"), "fixed": False})
    return out


def run(eng, p):
    begin(eng, random_modules=["pydcop.algorithms.dpop"], float_modules=["pydcop.algorithms.dpop"])
    import pydcop.infrastructure.orchestrator as orch_mod
    from pydcop.infrastructure.communication import InProcessCommunicationLayer
    from pydcop.infrastructure.orchestrator import Orchestrator, ValueChangeMessage, ComputationFinishedMessage
    from pydcop.distribution.objects import Distribution
    from pydcop.dcop.objects import AgentDef
    inst = Instance(eng, p["spec"])
    cg, comps = build_computations(inst.dcop, "dpop", inst.mode)
    names = [c.name for c in comps]
    dist_kind = eng.pick(["one_each", "all_on_one", "first_two"], "distribution")
    if dist_kind == "one_each":
        host = {n: "a%d" % i for i, n in enumerate(names)}
    elif dist_kind == "all_on_one":
        host = {n: "a0" for n in names}
    else:
        host = {n: ("a0" if i < 2 else "a%d" % (i - 1)) for i, n in enumerate(names)}
    agents = sorted(set(host.values()))
    inst.dcop.add_agents([AgentDef(a) for a in agents])
    mapping = {a: [n for n in names if host[n] == a] for a in agents}
    algo = comps[0].computation_def.algo
    try:
        orch = Orchestrator(algo, cg, Distribution(mapping), InProcessCommunicationLayer(), inst.dcop)
    except Exception as e:
        eng.fail("Orchestrator construction raised %s: %s" % (type(e).__name__, e), detail=traceback.format_exc(limit=-4))
        return
    mgt = orch.mgt
    mgt.message_sender = lambda *a, **k: None
    stops, stop_failures = [], []
    mgt._orchestrator_stop_agents = lambda *a: stops.append(len(delivered))
    orch.stop_agents = lambda *a, **k: stop_failures.append("critical error path")
    mgt.stop = lambda *a, **k: None
    # --- run DPOP on the bench, collecting the management messages per agent (FIFO) --------------------------------
    outbox = {a: [] for a in agents}
    bench = Bench(eng)
    bench.fixed_schedule = bool(p.get("fixed"))
    for c in comps:
        bench.add(c)
    bench.on_select = lambda name, val, cost, cycle: outbox[host[name]].append(
        ValueChangeMessage(host[name], name, val, cost, cycle, {}))
    bench.on_finished = lambda name: outbox[host[name]].append(ComputationFinishedMessage(host[name], name))
    try:
        bench.start_all()
        status = bench.run(max_steps=200)
    except Exception as e:
        eng.fail("DPOP run raised %s: %s" % (type(e).__name__, e), detail=traceback.format_exc(limit=-4))
        return
    # --- deliver to the orchestrator in any per-agent-FIFO interleaving ---------------------------------------------
    delivered = []
    finished_seen = set()
    stop_when = None
    while any(outbox.values()):
        ready = [a for a in agents if outbox[a]]
        a = ready[eng.choose(len(ready), "mgt_sched")]
        msg = outbox[a].pop(0)
        delivered.append((a, msg.type))
        mgt.on_message("_mgt_" + a, msg, float(len(delivered)))
        if msg.type == "end_of_computation":
            finished_seen.add(msg.computation)
            if finished_seen == set(names) and stop_when is None:
                stop_when = len(delivered)
    eng.notes["outcome"] = {"dist": dist_kind, "status": status, "stops": stops, "delivered": len(delivered)}
    eng.prove(not stop_failures, "the orchestrator hit its critical-error path while handling management messages")
    eng.prove(stops == [stop_when] if stop_when else stops == [],
              "the stop order was not issued exactly once, when the last computation reported its end",
              detail=str((stops, stop_when, delivered)))
    metrics = mgt.global_metrics("END", 0.0)
    asg = metrics["assignment"]
    ok = set(asg) == set(inst.var_names()) and all(asg[v] in inst.domains[v] for v in asg)
    eng.prove(ok, "reported assignment does not cover every variable with a domain value", detail=str(asg))
    if ok:
        viol, cost = inst.dcop.solution_cost(dict(asg), float("inf"))
        eng.prove(F.and_(F.eq(metrics["cost"], cost), F.eq(metrics["violation"], viol), F.eq(cost, inst.cost(asg)), viol == 0),
                  "reported cost / violation differ from the DCOP's own accounting of the reported assignment", detail=str(asg))
        eng.prove(inst.is_optimal(asg), "reported assignment is not optimal", detail=str(asg))
