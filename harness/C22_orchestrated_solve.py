"""C22 -- orchestrated solve terminates and reports a true optimal result (orchestrator accounting, partial)."""
import traceback

from harness.common import begin, build_computations, Bench, F
from symex.catalogue import Instance, spec

EXPLANATION = ("The real Orchestrator / AgentsMgt object is constructed without threads and fed, in every per-agent-FIFO "
               "interleaving, with the ValueChangeMessage / ComputationFinishedMessage stream that a real DPOP run on the bench "
               "produces through the same hooks an orchestrated agent installs (value_selection and finished), for several "
               "distributions of the computations over agents; cost tables are symbolic. Oracle: the stop order is issued exactly "
               "when the last computation has finished; global_metrics('END') covers every variable, its cost and violation equal "
               "DCOP.solution_cost of that assignment (z3), and the assignment is optimal (z3, brute-force definition).")
ASSUMPTIONS = [
    "PARTIAL: thread scheduling, timeouts, run.py / solve command, process mode and the agents' own management computation are outside; "
    "only the orchestrator's accounting (AgentsMgt handlers, global_metrics) is executed",
    "messages of one agent reach the orchestrator in the order they were produced (FIFO per agent); agents interleave arbitrarily",
    "cost tables are symbolic integers in [-2^40, 2^40]; numpy storage replaced by object arrays",
    "run-loop job: the caller's thread only yields where it hands a message to the orchestrator's thread or waits for an event "
    "(interleavings at a finer grain, between two ordinary statements of run(), are explored only at those points)",
    "start-up job on chain-3 ('direct'): the directory round trip is replaced by its effect on the orchestrator's discovery",
    "start-up job on the pair: the orchestrator agent's queue is modelled as one FIFO shared by its directory and discovery computations "
    "(all discovery messages have the same priority); agents' publications arrive in it at any time; an agent "
    "registers a computation only after receiving its DeployMessage; the deploy / run orders are handled at any point after "
    "the event the main thread waits for is set",
]
BOUNDS = {"quick": "DPOP on pair and chain-3 (min and max), distributions: one agent per computation / all on one agent / first two together; canonical DPOP schedule, all interleavings of the management messages",
          "thorough": "quick + triangle and pair with variable cost, all DPOP schedules on the pair; start-up on chain-3 with two spare agents",
          }
BOUNDS["quick"] += "; pair whose domains hold falsy values other than the integer 0 (0.0, the empty string)"
BOUNDS["quick"] += ("; Orchestrator.run() executed by a helper thread in lockstep with the handling of the run order and of the "
                    "agents' messages (pair, one agent per computation, tables in [0, 3]), every interleaving at the "
                    "synchronisation points")
BOUNDS["quick"] += ("; start-up phase (agent registration incl. spare agents sorting before / after the used ones, deployment, "
                    "computation registration, run order) in every interleaving on pair (2 spares) and chain-3 (1 spare), followed by "
                    "the stop phase: every agent known when the stop order is handled (a spare one may have registered after the "
                    "run order) is told to stop, and the all-stopped flag is raised exactly when the last of them has unregistered")
OUTSIDE = "real threads, timeouts, the solve CLI, other algorithms than DPOP"
CAP_S = {"quick": 900, "thorough": 5400}


def jobs(tier):
    out = []
    for s in (["pair", "chain3"] + (["triangle", "pair_vcost"] if tier == "thorough" else [])):
        for mode in ("min", "max"):
            out.append({"name": "%s-%s" % (s, mode), "spec": spec(s, mode), "fixed": True})
    # a finite, symbolic marker for hard constraints (the solver may make it equal to a table entry)
    for mode in ("min", "max"):
        out.append({"name": "pair-%s-marker" % mode, "spec": spec("pair", mode), "fixed": True, "marker": True})
    if tier == "thorough":
        out.append({"name": "pair-min-allsched", "spec": spec("pair", "min"), "fixed": False})
    # start-up phase: registration of used and spare agents, deployment, computation registration, run order
    # the thread calling Orchestrator.run(), in lockstep with the orchestrator's own thread
    # domain values that are falsy without being the integer 0 (0.0, the empty string)
    out.append({"name": "pair-min-falsy-values", "spec": spec("pair", "min", domain_values={"x": [0.0, 1.0], "y": ["", "b"]}), "fixed": True})
    out.append({"name": "runloop-pair", "spec": spec("pair", "min"), "runloop": True})
    out.append({"name": "startup-pair", "spec": spec("pair", "min"), "startup": True, "spares": ["a"] if tier == "quick" else ["a", "zz"]})
    # chain-3: the directory round trip is replaced by its effect (register_* with publish=False on the orchestrator's
    # discovery, as its discovery computation does on a notification); the queue model above exceeds 2 million paths there
    out.append({"name": "startup-chain3-direct", "spec": spec("chain3", "min"), "startup": True, "direct": True,
                "spares": ["a"] if tier == "quick" else ["a", "zz"]})
    return out


class _Abort(BaseException):
    pass


class Lockstep:
    """Runs fn in a helper thread that only advances when the harness calls step(): the code of the thread calling
    Orchestrator.run() is executed for real, between the points where it synchronises with the orchestrator's own thread."""

    def __init__(self, fn):
        import threading
        self.to_thread, self.to_main = threading.Semaphore(0), threading.Semaphore(0)
        self.done, self.exc, self.abort = False, None, False
        self.t = threading.Thread(target=self._run, args=(fn,), daemon=True)
        self.t.start()

    def _run(self, fn):
        self.to_thread.acquire()
        try:
            if not self.abort:
                fn()
        except _Abort:
            pass
        except BaseException as e:
            self.exc = e
        self.done = True
        self.to_main.release()

    def yield_(self):
        self.to_main.release()
        self.to_thread.acquire()
        if self.abort:
            raise _Abort()

    def step(self):
        self.to_thread.release()
        self.to_main.acquire()

    def close(self):
        if not self.done:
            self.abort = True
            self.to_thread.release()
            self.t.join(5)


def run_runloop(eng, p):
    """Orchestrator.run() itself (the calling thread), interleaved at its synchronisation points with the orchestrator's
    thread handling the run order and the agents' value_change / end_of_computation messages (per-sender FIFO)."""
    begin(eng, random_modules=["pydcop.algorithms.dpop"], float_modules=["pydcop.algorithms.dpop"])
    from pydcop.infrastructure.communication import InProcessCommunicationLayer
    from pydcop.infrastructure.orchestrator import Orchestrator, ValueChangeMessage, ComputationFinishedMessage
    from pydcop.distribution.objects import Distribution
    from pydcop.dcop.objects import AgentDef
    inst = Instance(eng, p["spec"], lo=0, hi=3)
    cg, comps = build_computations(inst.dcop, "dpop", inst.mode)
    names = [c.name for c in comps]
    host = {n: "a%d" % i for i, n in enumerate(names)}
    agents = sorted(set(host.values()))
    inst.dcop.add_agents([AgentDef(a) for a in agents])
    mapping = {a: [n for n in names if host[n] == a] for a in agents}
    orch = Orchestrator(comps[0].computation_def.algo, cg, Distribution(mapping), InProcessCommunicationLayer(), inst.dcop)
    mgt = orch.mgt
    mgt.message_sender = lambda *a, **k: None
    sent, stops, failures, delivered = [], [], [], []
    mgt._send_mgt_msg = lambda agt, msg: sent.append((agt, msg))
    mgt.discovery.agents = lambda *a, **k: list(agents)
    stopped = [False]

    def stop_agents_order(*a):
        stops.append(len(delivered))
        stopped[0] = True
    mgt._orchestrator_stop_agents = stop_agents_order
    orch.stop_agents = lambda *a, **k: failures.append("critical error path")
    mgt.stop = lambda *a, **k: None
    main_channel = []
    ls = [None]

    main_state = ["running"]

    def mgt_method(method, arg):
        main_channel.append(method)
        main_state[0] = "posted"
        ls[0].yield_()
        main_state[0] = "running"
    orch._mgt_method = mgt_method

    def wait_stop_agents(timeout=None):
        while not stopped[0]:
            main_state[0] = "waiting_stop"
            ls[0].yield_()
        main_state[0] = "running"
    mgt.wait_stop_agents = wait_stop_agents
    orch._own_agt.clean_shutdown = lambda *a, **k: None
    orch._own_agt.join = lambda *a, **k: None
    mgt.ready_to_run.set()
    ls[0] = Lockstep(lambda: orch.run(timeout=None))
    outbox = {a: [] for a in agents}
    finished_seen, stop_when, started, trace = set(), None, False, []
    try:
        while True:
            ev = []
            if not ls[0].done and (main_state[0] != "waiting_stop" or stopped[0]):
                ev.append("main")
            if main_channel:
                ev.append("order")
            ev += [a for a in agents if outbox[a]]
            if not ev:
                break
            e = ev[eng.choose(len(ev), "runloop_sched")]
            if e == "main":
                ls[0].step()
                trace.append("main:" + ("returned" if ls[0].done else main_state[0]))
                if ls[0].exc:
                    raise ls[0].exc
            elif e == "order":
                method = main_channel.pop(0)
                trace.append(method)
                mgt.on_message("orchestrator", type("M", (), {"type": method})(), 0.0)
                if method == "_orchestrator_run_computations":
                    started = True
                    # the agents run their computations: DPOP on the bench, management messages collected per agent (FIFO)
                    bench = Bench(eng)
                    bench.fixed_schedule = True
                    for c in comps:
                        bench.add(c)
                    bench.on_select = lambda name, val, cost, cycle: outbox[host[name]].append(
                        ValueChangeMessage(host[name], name, val, cost, cycle, {}))
                    bench.on_finished = lambda name: outbox[host[name]].append(ComputationFinishedMessage(host[name], name))
                    bench.start_all()
                    bench.run(max_steps=200)
            else:
                msg = outbox[e].pop(0)
                delivered.append((e, msg.type))
                trace.append((e, msg.type))
                mgt.on_message("_mgt_" + e, msg, float(len(delivered)))
                if msg.type == "end_of_computation":
                    finished_seen.add(msg.computation)
                    if finished_seen == set(names) and stop_when is None:
                        stop_when = len(delivered)
    finally:
        ls[0].close()
    eng.notes["outcome"] = {"trace": [str(t) for t in trace], "stops": stops, "run_returned": ls[0].done}
    eng.prove(not failures, "the orchestrator hit its critical-error path", detail=str(trace))
    eng.prove(finished_seen == set(names), "not every computation reported its end", detail=str(trace))
    eng.prove(stops == [stop_when], "the stop order was not issued exactly once, when the last computation reported its end "
              "(the run would only end on its timeout)", detail=str((stops, stop_when, trace)))
    eng.prove(ls[0].done, "Orchestrator.run() did not return after the agents were stopped", detail=str(trace))
    metrics = mgt.global_metrics("END", 0.0)
    asg = metrics["assignment"]
    ok = set(asg) == set(inst.var_names()) and all(asg[v] in inst.domains[v] for v in asg)
    eng.prove(ok, "reported assignment does not cover every variable with a domain value", detail=str(asg))
    if ok:
        eng.prove(inst.is_optimal(asg), "reported assignment is not optimal", detail=str(asg))


def run_startup(eng, p):
    """Registration / deployment phase of AgentsMgt, every interleaving of the discovery events.

    Events: each agent of the DCOP (the ones used by the distribution and spare ones) registers on the orchestrator's
    discovery; once `all_registered` is set the main thread's deploy order may be handled (at any later point); every
    DeployMessage an agent received lets that agent register the computation; once `ready_to_run` is set the run order
    may be handled.  Oracle: `all_registered` only when every used agent is known; each computation deployed exactly once,
    on its host; `ready_to_run` only when every computation is registered; when no event is left the run order has been
    given (otherwise Orchestrator.run() blocks for ever) and each agent was asked to run exactly its computations."""
    begin(eng, random_modules=["pydcop.algorithms.dpop"], float_modules=["pydcop.algorithms.dpop"])
    from pydcop.infrastructure.communication import InProcessCommunicationLayer
    from pydcop.infrastructure.orchestrator import Orchestrator
    from pydcop.distribution.objects import Distribution
    from pydcop.dcop.objects import AgentDef
    inst = Instance(eng, p["spec"], lo=0, hi=0)
    cg, comps = build_computations(inst.dcop, "dpop", inst.mode)
    names = [c.name for c in comps]
    dist_kind = eng.pick(["one_each", "all_on_one", "first_two"], "distribution")
    if dist_kind == "one_each":
        host = {n: "b%d" % i for i, n in enumerate(names)}
    elif dist_kind == "all_on_one":
        host = {n: "b0" for n in names}
    else:
        host = {n: ("b0" if i < 2 else "b%d" % (i - 1)) for i, n in enumerate(names)}
    used = sorted(set(host.values()))
    agents = sorted(used + list(p["spares"]))
    inst.dcop.add_agents([AgentDef(a) for a in agents])
    mapping = {a: [n for n in names if host[n] == a] for a in used}
    algo = comps[0].computation_def.algo
    orch = Orchestrator(algo, cg, Distribution(mapping), InProcessCommunicationLayer(), inst.dcop)
    mgt, disco = orch.mgt, orch.discovery
    # the orchestrator agent's own message queue (discovery messages all have the same priority: FIFO), holding the
    # messages exchanged by its directory and discovery computations and the publications arriving from the agents
    from pydcop.infrastructure.discovery import PublishAgentMessage, PublishComputationMessage
    oq = []
    local = {c.name: c for c in (orch.directory.directory_computation, disco.discovery_computation)}
    direct = bool(p.get("direct"))
    for c in local.values():
        c._msg_sender = lambda src, dest, msg, prio=None, on_error=None: (
            oq.append((src, dest, msg)) if (dest in local and not direct) else None)
    sent = []
    mgt._send_mgt_msg = lambda agt, msg: sent.append((agt, msg))
    failures = []
    orch.stop_agents = lambda *a, **k: failures.append("critical error path")
    mgt.stop = lambda *a, **k: None
    orch.repair_only = False
    mgt.on_start()
    to_register = list(agents)
    to_publish = []            # (agent, computation) whose DeployMessage was received
    registered, published = set(), set()
    deployed, run_given, trace, bad = False, False, [], []
    quiet_handle = False       # the previous event handled a message without posting any: an arrival now would give the same
    #                            state as the arrival before that handling (it goes to the tail of the queue), explored elsewhere
    while True:
        ev = [] if quiet_handle else [("agent", a) for a in to_register] + [("comp", ac) for ac in to_publish]
        if oq:
            ev.append(("handle", None))
        if mgt.all_registered.is_set() and not deployed:
            ev.append(("deploy", None))
        if mgt.ready_to_run.is_set() and not run_given:
            ev.append(("run", None))
        if not ev:
            break
        kind, arg = ev[eng.choose(len(ev), "startup_sched")]
        trace.append((kind, arg))
        n0 = len(sent)
        q0 = len(oq)
        if kind == "agent":
            to_register.remove(arg)
            if direct:
                registered.add(arg)
                disco.register_agent(arg, "addr_" + arg, publish=False)
            else:
                oq.append(("_discovery_" + arg, "_directory", PublishAgentMessage(arg, "addr_" + arg)))
        elif kind == "comp":
            to_publish.remove(arg)
            if direct:
                published.add(arg[1])
                disco.register_computation(arg[1], arg[0], publish=False)
            else:
                oq.append(("_discovery_" + arg[0], "_directory", PublishComputationMessage(arg[1], arg[0], "addr_" + arg[0])))
        elif kind == "handle":
            src, dest, msg = oq.pop(0)
            trace[-1] = ("handle", "%s<-%s:%s" % (dest, src, msg.type))
            if dest == "_directory" and msg.type == "publish_agent":
                registered.add(msg.agents)
            if dest == "_directory" and msg.type == "publish_computation":
                published.add(msg.computation)
            local[dest].on_message(src, msg, 0.0)
        elif kind == "deploy":
            deployed = True
            mgt.on_message("orchestrator", type("M", (), {"type": "_orchestrator_deploy_computations"})(), 0.0)
            for agt, msg in sent[n0:]:
                if msg.type == "deploy":
                    to_publish.append((agt, msg.comp_def.node.name))
        else:
            run_given = True
            mgt.on_message("orchestrator", type("M", (), {"type": "_orchestrator_run_computations"})(), 0.0)
        quiet_handle = kind == "handle" and len(oq) == q0 - 1 and q0 > 1
        if mgt.all_registered.is_set() and not set(used) <= registered:
            bad.append("all_registered set while %s not registered" % sorted(set(used) - registered))
        if mgt.ready_to_run.is_set() and not set(names) <= published:
            bad.append("ready_to_run set while %s not deployed" % sorted(set(names) - published))
        if mgt._all_agt_stopped.is_set():
            bad.append("all agents considered stopped during start-up (Orchestrator.run() would return at once)")
    # -- end of the run: every computation finished, the stop order is handled; each agent that is known then (a spare
    # agent may have registered after the run order) must be told to stop, and once each of them has unregistered its
    # computations and itself the orchestrator must consider all agents stopped (what Orchestrator.run() waits for)
    stop_problem = None
    if deployed and run_given and not bad and not failures:
        from pydcop.infrastructure.discovery import UnPublishAgentMessage, UnPublishComputationMessage
        known = sorted(a for a in disco.agents() if a != "orchestrator")
        n0 = len(sent)
        mgt.on_message("orchestrator", type("M", (), {"type": "_orchestrator_stop_agents"})(), 0.0)
        stops = sorted(a for a, m in sent[n0:] if m.type == "stop")
        if stops != known:
            stop_problem = "stop sent to %s while the known agents are %s" % (stops, known)
        for a in stops:
            if mgt._all_agt_stopped.is_set():
                stop_problem = stop_problem or "all agents considered stopped while %s has not unregistered" % a
            if direct:
                for c in mapping.get(a, []):
                    disco.unregister_computation(c, a, publish=False)
                disco.unregister_agent(a, publish=False)
            else:
                for c in mapping.get(a, []):
                    oq.append(("_discovery_" + a, "_directory", UnPublishComputationMessage(c, a)))
                oq.append(("_discovery_" + a, "_directory", UnPublishAgentMessage(a)))
                while oq:
                    src, dest, msg = oq.pop(0)
                    local[dest].on_message(src, msg, 0.0)
        if stops == known and not mgt._all_agt_stopped.is_set():
            stop_problem = stop_problem or "every agent stopped and unregistered, yet the orchestrator still waits (agents left: %s)" % sorted(disco.agents())
    deploys = sorted((a, m.comp_def.node.name) for a, m in sent if m.type == "deploy")
    runs = {a: sorted(m.computations) for a, m in sent if m.type == "run_computations"}
    eng.notes["outcome"] = {"dist": dist_kind, "trace": [str(t) for t in trace], "deploys": deploys, "bad": bad}
    eng.prove(not failures, "the orchestrator hit its critical-error path during start-up", detail=str(trace))
    eng.prove(not bad, "start-up flags wrong (all_registered / ready_to_run raised too early, or all agents considered stopped)", detail=str((bad, trace)))
    eng.prove(deploys == sorted((host[n], n) for n in names),
              "computations were not deployed exactly once each on their host", detail=str((deploys, trace)))
    eng.prove(deployed and run_given, "the run order is never given: Orchestrator.run() would block for ever",
              detail=str(trace))
    eng.prove(stop_problem is None, "the stop phase cannot end: an agent is never told to stop, or the all-stopped flag is wrong",
              detail=str((stop_problem, trace)))
    eng.prove({a: r for a, r in runs.items() if r} == {a: sorted(mapping[a]) for a in used},
              "agents were not asked to run exactly the computations they host", detail=str((runs, trace)))


def run(eng, p):
    if p.get("startup"):
        return run_startup(eng, p)
    if p.get("runloop"):
        return run_runloop(eng, p)
    begin(eng, random_modules=["pydcop.algorithms.dpop"], float_modules=["pydcop.algorithms.dpop"])
    import pydcop.infrastructure.orchestrator as orch_mod
    from pydcop.infrastructure.communication import InProcessCommunicationLayer
    from pydcop.infrastructure.orchestrator import Orchestrator, ValueChangeMessage, ComputationFinishedMessage
    from pydcop.distribution.objects import Distribution
    from pydcop.dcop.objects import AgentDef
    inst = Instance(eng, p["spec"])
    cg, comps = build_computations(inst.dcop, "dpop", inst.mode)
    names = [c.name for c in comps]
    dist_kind = eng.pick(["one_each", "all_on_one", "first_two"], "distribution")
    if dist_kind == "one_each":
        host = {n: "a%d" % i for i, n in enumerate(names)}
    elif dist_kind == "all_on_one":
        host = {n: "a0" for n in names}
    else:
        host = {n: ("a0" if i < 2 else "a%d" % (i - 1)) for i, n in enumerate(names)}
    agents = sorted(set(host.values()))
    inst.dcop.add_agents([AgentDef(a) for a in agents])
    mapping = {a: [n for n in names if host[n] == a] for a in agents}
    algo = comps[0].computation_def.algo
    # the value that marks a hard constraint: +inf by default, a symbolic finite marker in the "-marker" jobs
    infinity = eng.sym_int("infinity", -2 ** 40, 2 ** 40) if p.get("marker") else float("inf")
    try:
        orch = Orchestrator(algo, cg, Distribution(mapping), InProcessCommunicationLayer(), inst.dcop, infinity=infinity)
    except Exception as e:
        eng.fail("Orchestrator construction raised %s: %s" % (type(e).__name__, e), detail=traceback.format_exc(limit=-4))
        return
    mgt = orch.mgt
    mgt.message_sender = lambda *a, **k: None
    stops, stop_failures = [], []
    mgt._orchestrator_stop_agents = lambda *a: stops.append(len(delivered))
    orch.stop_agents = lambda *a, **k: stop_failures.append("critical error path")
    mgt.stop = lambda *a, **k: None
    # --- run DPOP on the bench, collecting the management messages per agent (FIFO) --------------------------------
    outbox = {a: [] for a in agents}
    bench = Bench(eng)
    bench.fixed_schedule = bool(p.get("fixed"))
    for c in comps:
        bench.add(c)
    bench.on_select = lambda name, val, cost, cycle: outbox[host[name]].append(
        ValueChangeMessage(host[name], name, val, cost, cycle, {}))
    bench.on_finished = lambda name: outbox[host[name]].append(ComputationFinishedMessage(host[name], name))
    try:
        bench.start_all()
        status = bench.run(max_steps=200)
    except Exception as e:
        eng.fail("DPOP run raised %s: %s" % (type(e).__name__, e), detail=traceback.format_exc(limit=-4))
        return
    # --- deliver to the orchestrator in any per-agent-FIFO interleaving ---------------------------------------------
    delivered = []
    finished_seen = set()
    stop_when = None
    while any(outbox.values()):
        ready = [a for a in agents if outbox[a]]
        a = ready[eng.choose(len(ready), "mgt_sched")]
        msg = outbox[a].pop(0)
        delivered.append((a, msg.type))
        mgt.on_message("_mgt_" + a, msg, float(len(delivered)))
        if msg.type == "end_of_computation":
            finished_seen.add(msg.computation)
            if finished_seen == set(names) and stop_when is None:
                stop_when = len(delivered)
    eng.notes["outcome"] = {"dist": dist_kind, "status": status, "stops": stops, "delivered": len(delivered)}
    eng.prove(not stop_failures, "the orchestrator hit its critical-error path while handling management messages")
    eng.prove(stops == [stop_when] if stop_when else stops == [],
              "the stop order was not issued exactly once, when the last computation reported its end",
              detail=str((stops, stop_when, delivered)))
    metrics = mgt.global_metrics("END", 0.0)
    asg = metrics["assignment"]
    ok = set(asg) == set(inst.var_names()) and all(asg[v] in inst.domains[v] for v in asg)
    eng.prove(ok, "reported assignment does not cover every variable with a domain value", detail=str(asg))
    if ok:
        viol, cost = inst.dcop.solution_cost(dict(asg), infinity)
        eng.prove(F.and_(F.eq(metrics["cost"], cost), F.eq(metrics["violation"], viol),
                         True if p.get("marker") else F.and_(F.eq(cost, inst.cost(asg)), viol == 0)),
                  "reported cost / violation differ from the DCOP's own accounting of the reported assignment", detail=str(asg))
        eng.prove(inst.is_optimal(asg), "reported assignment is not optimal", detail=str(asg))
