"""C22 -- orchestrated solve terminates and reports a true optimal result (orchestrator accounting, partial)."""
import traceback

from harness.common import begin, build_computations, Bench, F
from symex.catalogue import Instance, spec

EXPLANATION = ("The real Orchestrator / AgentsMgt object is constructed without threads and fed, in every per-agent-FIFO "
               "interleaving, with the ValueChangeMessage / ComputationFinishedMessage stream that a real DPOP run on the bench "
               "produces through the same hooks an orchestrated agent installs (value_selection and finished), for several "
               "distributions of the computations over agents; cost tables are symbolic. Oracle: the stop order is issued exactly "
               "when the last computation has finished; global_metrics('END') covers every variable, its cost and violation equal "
               "DCOP.solution_cost of that assignment (z3), and the assignment is optimal (z3, brute-force definition).")
ASSUMPTIONS = [
    "PARTIAL: thread scheduling, timeouts, run.py / solve command, process mode and the agents' own management computation are outside; "
    "only the orchestrator's accounting (AgentsMgt handlers, global_metrics) is executed",
    "messages of one agent reach the orchestrator in the order they were produced (FIFO per agent); agents interleave arbitrarily",
    "cost tables are symbolic integers in [-2^40, 2^40]; numpy storage replaced by object arrays",
    "start-up jobs: the directory round trip is replaced by its effect (Discovery.register_agent / register_computation with "
    "publish=False on the orchestrator's discovery, as DiscoveryComputation does on a directory notification); an agent "
    "registers a computation only after receiving its DeployMessage; the deploy / run orders are handled at any point after "
    "the event the main thread waits for is set",
]
BOUNDS = {"quick": "DPOP on pair and chain-3 (min and max), distributions: one agent per computation / all on one agent / first two together; canonical DPOP schedule, all interleavings of the management messages",
          "thorough": "quick + triangle and pair with variable cost, all DPOP schedules on the pair; start-up on chain-3 with two spare agents",
          }
BOUNDS["quick"] += ("; start-up phase (agent registration incl. spare agents sorting before / after the used ones, deployment, "
                    "computation registration, run order) in every interleaving on pair (2 spares) and chain-3 (1 spare)")
OUTSIDE = "real threads, timeouts, the solve CLI, other algorithms than DPOP"
CAP_S = {"quick": 900, "thorough": 5400}


def jobs(tier):
    out = []
    for s in (["pair", "chain3"] + (["triangle", "pair_vcost"] if tier == "thorough" else [])):
        for mode in ("min", "max"):
            out.append({"name": "%s-%s" % (s, mode), "spec": spec(s, mode), "fixed": True})
    if tier == "thorough":
        out.append({"name": "pair-min-allsched", "spec": spec("pair", "min"), "fixed": False})
    # start-up phase: registration of used and spare agents, deployment, computation registration, run order
    out.append({"name": "startup-pair", "spec": spec("pair", "min"), "startup": True, "spares": ["a", "zz"]})
    out.append({"name": "startup-chain3", "spec": spec("chain3", "min"), "startup": True,
                "spares": ["a"] if tier == "quick" else ["a", "zz"]})
    return out


def run_startup(eng, p):
    """Registration / deployment phase of AgentsMgt, every interleaving of the discovery events.

    Events: each agent of the DCOP (the ones used by the distribution and spare ones) registers on the orchestrator's
    discovery; once `all_registered` is set the main thread's deploy order may be handled (at any later point); every
    DeployMessage an agent received lets that agent register the computation; once `ready_to_run` is set the run order
    may be handled.  Oracle: `all_registered` only when every used agent is known; each computation deployed exactly once,
    on its host; `ready_to_run` only when every computation is registered; when no event is left the run order has been
    given (otherwise Orchestrator.run() blocks for ever) and each agent was asked to run exactly its computations."""
    begin(eng, random_modules=["pydcop.algorithms.dpop"], float_modules=["pydcop.algorithms.dpop"])
    from pydcop.infrastructure.communication import InProcessCommunicationLayer
    from pydcop.infrastructure.orchestrator import Orchestrator
    from pydcop.distribution.objects import Distribution
    from pydcop.dcop.objects import AgentDef
    inst = Instance(eng, p["spec"], lo=0, hi=0)
    cg, comps = build_computations(inst.dcop, "dpop", inst.mode)
    names = [c.name for c in comps]
    dist_kind = eng.pick(["one_each", "all_on_one", "first_two"], "distribution")
    if dist_kind == "one_each":
        host = {n: "b%d" % i for i, n in enumerate(names)}
    elif dist_kind == "all_on_one":
        host = {n: "b0" for n in names}
    else:
        host = {n: ("b0" if i < 2 else "b%d" % (i - 1)) for i, n in enumerate(names)}
    used = sorted(set(host.values()))
    agents = sorted(used + list(p["spares"]))
    inst.dcop.add_agents([AgentDef(a) for a in agents])
    mapping = {a: [n for n in names if host[n] == a] for a in used}
    algo = comps[0].computation_def.algo
    orch = Orchestrator(algo, cg, Distribution(mapping), InProcessCommunicationLayer(), inst.dcop)
    mgt, disco = orch.mgt, orch.discovery
    disco.discovery_computation.send_to_directory = lambda m: None
    sent = []
    mgt._send_mgt_msg = lambda agt, msg: sent.append((agt, msg))
    failures = []
    orch.stop_agents = lambda *a, **k: failures.append("critical error path")
    mgt.stop = lambda *a, **k: None
    orch.repair_only = False
    mgt.on_start()
    to_register = list(agents)
    to_publish = []            # (agent, computation) whose DeployMessage was received
    registered, published = set(), set()
    deployed, run_given, trace, bad = False, False, [], []
    while True:
        ev = [("agent", a) for a in to_register] + [("comp", ac) for ac in to_publish]
        if mgt.all_registered.is_set() and not deployed:
            ev.append(("deploy", None))
        if mgt.ready_to_run.is_set() and not run_given:
            ev.append(("run", None))
        if not ev:
            break
        kind, arg = ev[eng.choose(len(ev), "startup_sched")]
        trace.append((kind, arg))
        n0 = len(sent)
        if kind == "agent":
            to_register.remove(arg)
            registered.add(arg)
            disco.register_agent(arg, "addr_" + arg, publish=False)
        elif kind == "comp":
            to_publish.remove(arg)
            published.add(arg[1])
            disco.register_computation(arg[1], arg[0], publish=False)
        elif kind == "deploy":
            deployed = True
            mgt.on_message("orchestrator", type("M", (), {"type": "_orchestrator_deploy_computations"})(), 0.0)
            for agt, msg in sent[n0:]:
                if msg.type == "deploy":
                    to_publish.append((agt, msg.comp_def.node.name))
        else:
            run_given = True
            mgt.on_message("orchestrator", type("M", (), {"type": "_orchestrator_run_computations"})(), 0.0)
        if mgt.all_registered.is_set() and not set(used) <= registered:
            bad.append("all_registered set while %s not registered" % sorted(set(used) - registered))
        if mgt.ready_to_run.is_set() and not set(names) <= published:
            bad.append("ready_to_run set while %s not deployed" % sorted(set(names) - published))
    deploys = sorted((a, m.comp_def.node.name) for a, m in sent if m.type == "deploy")
    runs = {a: sorted(m.computations) for a, m in sent if m.type == "run_computations"}
    eng.notes["outcome"] = {"dist": dist_kind, "trace": [str(t) for t in trace], "deploys": deploys, "bad": bad}
    eng.prove(not failures, "the orchestrator hit its critical-error path during start-up", detail=str(trace))
    eng.prove(not bad, "all_registered / ready_to_run raised too early", detail=str((bad, trace)))
    eng.prove(deploys == sorted((host[n], n) for n in names),
              "computations were not deployed exactly once each on their host", detail=str((deploys, trace)))
    eng.prove(deployed and run_given, "the run order is never given: Orchestrator.run() would block for ever",
              detail=str(trace))
    eng.prove({a: r for a, r in runs.items() if r} == {a: sorted(mapping[a]) for a in used},
              "agents were not asked to run exactly the computations they host", detail=str((runs, trace)))


def run(eng, p):
    if p.get("startup"):
        return run_startup(eng, p)
    begin(eng, random_modules=["pydcop.algorithms.dpop"], float_modules=["pydcop.algorithms.dpop"])
    import pydcop.infrastructure.orchestrator as orch_mod
    from pydcop.infrastructure.communication import InProcessCommunicationLayer
    from pydcop.infrastructure.orchestrator import Orchestrator, ValueChangeMessage, ComputationFinishedMessage
    from pydcop.distribution.objects import Distribution
    from pydcop.dcop.objects import AgentDef
    inst = Instance(eng, p["spec"])
    cg, comps = build_computations(inst.dcop, "dpop", inst.mode)
    names = [c.name for c in comps]
    dist_kind = eng.pick(["one_each", "all_on_one", "first_two"], "distribution")
    if dist_kind == "one_each":
        host = {n: "a%d" % i for i, n in enumerate(names)}
    elif dist_kind == "all_on_one":
        host = {n: "a0" for n in names}
    else:
        host = {n: ("a0" if i < 2 else "a%d" % (i - 1)) for i, n in enumerate(names)}
    agents = sorted(set(host.values()))
    inst.dcop.add_agents([AgentDef(a) for a in agents])
    mapping = {a: [n for n in names if host[n] == a] for a in agents}
    algo = comps[0].computation_def.algo
    try:
        orch = Orchestrator(algo, cg, Distribution(mapping), InProcessCommunicationLayer(), inst.dcop)
    except Exception as e:
        eng.fail("Orchestrator construction raised %s: %s" % (type(e).__name__, e), detail=traceback.format_exc(limit=-4))
        return
    mgt = orch.mgt
    mgt.message_sender = lambda *a, **k: None
    stops, stop_failures = [], []
    mgt._orchestrator_stop_agents = lambda *a: stops.append(len(delivered))
    orch.stop_agents = lambda *a, **k: stop_failures.append("critical error path")
    mgt.stop = lambda *a, **k: None
    # --- run DPOP on the bench, collecting the management messages per agent (FIFO) --------------------------------
    outbox = {a: [] for a in agents}
    bench = Bench(eng)
    bench.fixed_schedule = bool(p.get("fixed"))
    for c in comps:
        bench.add(c)
    bench.on_select = lambda name, val, cost, cycle: outbox[host[name]].append(
        ValueChangeMessage(host[name], name, val, cost, cycle, {}))
    bench.on_finished = lambda name: outbox[host[name]].append(ComputationFinishedMessage(host[name], name))
    try:
        bench.start_all()
        status = bench.run(max_steps=200)
    except Exception as e:
        eng.fail("DPOP run raised %s: %s" % (type(e).__name__, e), detail=traceback.format_exc(limit=-4))
        return
    # --- deliver to the orchestrator in any per-agent-FIFO interleaving ---------------------------------------------
    delivered = []
    finished_seen = set()
    stop_when = None
    while any(outbox.values()):
        ready = [a for a in agents if outbox[a]]
        a = ready[eng.choose(len(ready), "mgt_sched")]
        msg = outbox[a].pop(0)
        delivered.append((a, msg.type))
        mgt.on_message("_mgt_" + a, msg, float(len(delivered)))
        if msg.type == "end_of_computation":
            finished_seen.add(msg.computation)
            if finished_seen == set(names) and stop_when is None:
                stop_when = len(delivered)
    eng.notes["outcome"] = {"dist": dist_kind, "status": status, "stops": stops, "delivered": len(delivered)}
    eng.prove(not stop_failures, "the orchestrator hit its critical-error path while handling management messages")
    eng.prove(stops == [stop_when] if stop_when else stops == [],
              "the stop order was not issued exactly once, when the last computation reported its end",
              detail=str((stops, stop_when, delivered)))
    metrics = mgt.global_metrics("END", 0.0)
    asg = metrics["assignment"]
    ok = set(asg) == set(inst.var_names()) and all(asg[v] in inst.domains[v] for v in asg)
    eng.prove(ok, "reported assignment does not cover every variable with a domain value", detail=str(asg))
    if ok:
        viol, cost = inst.dcop.solution_cost(dict(asg), float("inf"))
        eng.prove(F.and_(F.eq(metrics["cost"], cost), F.eq(metrics["violation"], viol), F.eq(cost, inst.cost(asg)), viol == 0),
                  "reported cost / violation differ from the DCOP's own accounting of the reported assignment", detail=str(asg))
        eng.prove(inst.is_optimal(asg), "reported assignment is not optimal", detail=str(asg))
