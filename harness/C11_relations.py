"""C11 -- relations evaluate and slice consistently with their definition."""
import functools
import itertools
import traceback

from harness.common import begin, region, F

EXPLANATION = ("Every relation kind (matrix, expression, python-function, unary function, boolean, zero-ary, neutral, "
               "conditional) is built on variables given in a solver-chosen order, with symbolic numbers in matrix cells and in "
               "the coefficients closed over by python functions; the iteration order of the name set returned by the "
               "expression analyser is solver-chosen (= every PYTHONHASHSEED). For a chosen full assignment: keyword call == "
               "positional call (dimension order) == dict call == reference value; for a chosen partial assignment sliced in one "
               "or two steps: remaining dimensions are exactly the unassigned variables and the sliced relation agrees with the "
               "original on the completion.")
ASSUMPTIONS = [
    "symbolic numbers are integers in [-2^20, 2^20]; domain values are small concrete ints (0..2)",
    "expression relations use fixed expression strings over the variable names; their coefficients are concrete",
    "the set of names found by ExpressionFunction's AST analysis is replaced by a set-like object whose iteration order is an arbitrary (explored) permutation",
    "numpy storage replaced by dtype=object arrays",
]
BOUNDS = {
    "quick": "3 variables x,y,z (domains 2,3,2), every permutation of the variable list, every full assignment, every non-empty partial assignment, 1- and 2-step slicing; every relation kind of KINDS",
    "thorough": "quick + 4 variables for matrix / expression / python-function relations, 3-step slicing",
}
OUTSIDE = "more than 4 variables, str-valued domains, expressions with return statements or source files, float coefficients"
CAP_S = {"quick": 900, "thorough": 7200}
LIM = 2 ** 20
DOMS = {"x": [0, 1], "y": [0, 1, 2], "z": [0, 1], "w": [0, 1]}

KINDS = ["matrix", "expr_str", "expr_direct", "expr_direct_kw", "pyfunc", "pyfunc_kw", "pyfunc_named_kw", "pyfunc_partial", "unary", "boolean",
         "zeroary", "neutral", "cond_neutral", "cond_zero", "cond_shared"]


def jobs(tier):
    out = [{"name": k, "kind": k, "nvars": 3} for k in KINDS]
    if tier == "thorough":
        out += [{"name": k + "-4", "kind": k, "nvars": 4, "steps3": True} for k in ("matrix", "expr_str", "expr_direct_kw", "pyfunc")]
    return out


class _ChoiceSet(set):
    """A set whose iteration order is a fixed, solver-chosen permutation (models hash-seed dependent order)."""

    def __init__(self, items, eng):
        super().__init__(items)
        # within one process the iteration order of a set of given strings is fixed: one permutation of the
        # full name universe per path, restricted to the items of this set
        if getattr(eng, "_verif_set_perm_owner", None) is not eng.notes:
            eng._verif_set_perm_owner = eng.notes
            eng._verif_set_perm = None
        if eng._verif_set_perm is None:
            rest = ["w", "x", "y", "z"]
            perm = []
            while rest:
                perm.append(rest.pop(eng.choose(len(rest), "set_order")))
            eng._verif_set_perm = perm
        perm = eng._verif_set_perm
        self._order = [n for n in perm if n in items] + sorted(n for n in items if n not in perm)

    def __iter__(self):
        return iter(self._order)


def _install_set_order(eng):
    import pydcop.utils.expressionfunction as ef
    if not hasattr(ef, "_verif_orig_analyse"):
        ef._verif_orig_analyse = ef._analyse_ast
    orig = ef._verif_orig_analyse

    def analyse(code):
        has_ret, names = orig(code)
        return has_ret, _ChoiceSet(names, eng)
    ef._analyse_ast = analyse


def build(eng, kind, names):
    """Returns (relation, ref(asg)->value, expected dimension names or None if order is free)."""
    from pydcop.dcop.objects import Domain, Variable
    from pydcop.dcop import relations as R
    from pydcop.utils.expressionfunction import ExpressionFunction
    V = {n: Variable(n, Domain("d" + n, "", DOMS[n])) for n in names}
    perm = list(names)
    order = []
    while perm:
        order.append(perm.pop(eng.choose(len(perm), "var_order")))
    vs = [V[n] for n in order]
    coef = {n: 10 ** i for i, n in enumerate(sorted(names))}
    if kind == "matrix":
        shape = [len(DOMS[n]) for n in order]
        tab = {idx: eng.sym_int("m_" + "".join(map(str, idx)), -LIM, LIM) for idx in itertools.product(*map(range, shape))}

        def nest(prefix, dims):
            return tab[tuple(prefix)] if not dims else [nest(prefix + [i], dims[1:]) for i in range(dims[0])]
        rel = R.NAryMatrixRelation(vs, nest([], shape), name="m")
        return rel, (lambda a: tab[tuple(DOMS[n].index(a[n]) for n in order)]), order
    if kind.startswith("expr"):
        expr = " + ".join("%s*%d" % (n, coef[n]) for n in sorted(names)) + " - " + sorted(names)[0]
        ref = lambda a: sum(a[n] * coef[n] for n in names) - a[sorted(names)[0]]
        if kind == "expr_str":
            rel = R.constraint_from_str("e", expr, vs)
            return rel, ref, None
        f = ExpressionFunction(expr)
        rel = R.NAryFunctionRelation(f, vs, name="e", f_kwargs=(kind == "expr_direct_kw"))
        return rel, ref, order
    if kind.startswith("pyfunc"):
        ks = {n: eng.sym_int("k_" + n, -LIM, LIM) for n in names}
        k0 = eng.sym_int("k_0", -LIM, LIM)
        ref = lambda a: F.sum([ks[n] * a[n] for n in names]) + k0
        if kind == "pyfunc":
            # positional function: its arguments follow the order in which the variables are listed
            def f(*args_unused, **kw):
                raise AssertionError
            src = "def f(%s):\n    return %s + k0" % (", ".join("a_" + n for n in order),
                                                       " + ".join("ks['%s']*a_%s" % (n, n) for n in order))
            env = {"ks": ks, "k0": k0}
            exec(src, env)
            rel = R.NAryFunctionRelation(env["f"], vs, name="p")
            return rel, ref, order
        if kind == "pyfunc_named_kw":
            # a function with named arguments (in lexical order), used by keyword: the order in which the variables are
            # listed is irrelevant
            src = "def f(%s):\n    return %s + k0" % (", ".join(names), " + ".join("ks['%s']*%s" % (n, n) for n in names))
            env = {"ks": ks, "k0": k0}
            exec(src, env)
            rel = R.NAryFunctionRelation(env["f"], vs, name="p", f_kwargs=True)
            return rel, ref, order
        if kind == "pyfunc_kw":
            def g(**kw):
                return F.sum([ks[n] * kw[n] for n in names]) + k0
            rel = R.NAryFunctionRelation(g, vs, name="p", f_kwargs=True)
            return rel, ref, order
        # functools.partial over a keyword function with one extra fixed argument
        src = "def f(%s, extra):\n    return %s + k0 + extra" % (", ".join(order), " + ".join("ks['%s']*%s" % (n, n) for n in order))
        env = {"ks": ks, "k0": k0}
        exec(src, env)
        ex = eng.sym_int("extra", -LIM, LIM)
        rel = R.NAryFunctionRelation(functools.partial(env["f"], extra=ex), vs, name="p")
        return rel, (lambda a: ref(a) + ex), order
    if kind == "unary":
        k, k0 = eng.sym_int("k", -LIM, LIM), eng.sym_int("k0", -LIM, LIM)
        n = order[0]
        return R.UnaryFunctionRelation("u", V[n], lambda v: k * v + k0), (lambda a: k * a[n] + k0), [n]
    if kind == "boolean":
        n = order[0]
        return R.UnaryBooleanRelation("b", V[n]), (lambda a: bool(a[n])), [n]
    if kind == "zeroary":
        val = eng.sym_int("val", -LIM, LIM)
        return R.ZeroAryRelation("z", val), (lambda a: val), []
    if kind == "neutral":
        return R.NeutralRelation(vs, name="n"), (lambda a: 0), order
    if kind == "cond_shared":
        # the condition variable is also a variable of the consequence
        cvar = order[0]
        eng.notes["cvar"] = cvar
        cond = R.UnaryBooleanRelation("c", V[cvar])
        shape = [len(DOMS[n]) for n in order]
        tab = {idx: eng.sym_int("t_" + "".join(map(str, idx)), -LIM, LIM) for idx in itertools.product(*map(range, shape))}

        def nest(prefix, dims):
            return tab[tuple(prefix)] if not dims else [nest(prefix + [i], dims[1:]) for i in range(dims[0])]
        body = R.NAryMatrixRelation([V[n] for n in order], nest([], shape), name="t")
        rel = R.ConditionalRelation(cond, body, name="cr", return_neutral=True)
        ref = lambda a: (tab[tuple(DOMS[n].index(a[n]) for n in order)] if a[cvar] else 0)
        return rel, ref, sorted(order)
    if kind.startswith("cond"):
        cvar, rest = order[0], order[1:]
        eng.notes["cvar"] = cvar
        cond = R.UnaryBooleanRelation("c", V[cvar])
        shape = [len(DOMS[n]) for n in rest]
        tab = {idx: eng.sym_int("t_" + "".join(map(str, idx)), -LIM, LIM) for idx in itertools.product(*map(range, shape))}

        def nest(prefix, dims):
            return tab[tuple(prefix)] if not dims else [nest(prefix + [i], dims[1:]) for i in range(dims[0])]
        body = R.NAryMatrixRelation([V[n] for n in rest], nest([], shape), name="t")
        rel = R.ConditionalRelation(cond, body, name="cr", return_neutral=(kind == "cond_neutral"))
        ref = lambda a: (tab[tuple(DOMS[n].index(a[n]) for n in rest)] if a[cvar] else 0)
        return rel, ref, sorted(order)
    raise ValueError(kind)


def _same(a, b):
    if isinstance(a, bool) or isinstance(b, bool):
        return bool(a) == bool(b) if isinstance(a, bool) and isinstance(b, bool) else F.eq(int(a) if isinstance(a, bool) else a,
                                                                                          int(b) if isinstance(b, bool) else b)
    return F.eq(a, b)


def run(eng, p):
    begin(eng)
    _install_set_order(eng)
    kind = p["kind"]
    names = ["x", "y", "z", "w"][:p["nvars"]]
    if kind in ("unary", "boolean"):
        names = names[:1] if False else names      # variable chosen through the order below
    regs_partial = region(eng, "C11-expression-partial-drops-fixed", kind.startswith("expr"))
    regs_pos = region(eng, "C11-expression-positional-set-order", kind == "expr_direct")
    regs = regs_partial + regs_pos
    try:
        rel, ref, exp_dims = build(eng, kind, names)
    except Exception as e:
        eng.fail("building the relation raised %s: %s" % (type(e).__name__, e), regions=regs, detail=traceback.format_exc(limit=-4))
        return
    dims = [v.name for v in rel.dimensions]
    used = exp_dims if exp_dims is not None else sorted(names)
    eng.notes["outcome"] = {"kind": kind, "dims": dims}
    eng.prove(sorted(dims) == sorted(used) and (exp_dims is None or kind.startswith("cond") or dims == exp_dims),
              "relation dimensions are not the variables it was built on", regions=regs, detail=str((dims, exp_dims)))
    asg = {n: DOMS[n][eng.choose(len(DOMS[n]), "val_" + n)] for n in dims}
    want = ref(asg)
    mode = eng.pick(["eval", "slice"], "mode")
    try:
        if mode == "eval":
            got_kw = rel(**asg) if dims else rel()
            got_pos = rel(*[asg[n] for n in dims])
            got_dict = rel.get_value_for_assignment(dict(asg))
            eng.prove(F.and_(_same(got_kw, want), _same(got_pos, want), _same(got_dict, want)),
                      "keyword / positional / dict evaluation disagree with the definition", regions=regs + regs_pos,
                      detail=str((kind, dims, asg)))
            return
        if not dims:
            s = rel.slice({})
            eng.prove(_same(s(), want) and s.dimensions == [], "slicing a zero-ary relation on nothing changed it", regions=regs)
            return
        k = eng.choose(2 ** len(dims) - 1, "partial") + 1
        part = [n for i, n in enumerate(dims) if (k >> i) & 1]
        nsteps = eng.pick([1, 2] + ([3] if p.get("steps3") else []), "steps") if len(part) > 1 else 1
        groups = [part] if nsteps == 1 else ([part[:1], part[1:]] if nsteps == 2 else [part[:1], part[1:2], part[2:]])
        groups = [g for g in groups if g]
        rest = [n for n in dims if n not in part]
        if kind == "cond_zero":
            cvar = eng.notes.get("cvar")
            # listed finding: false condition sliced away while consequence variables remain
            regs = regs + region(eng, "C11-conditional-slice-zeroary", cvar in part and not asg[cvar] and (bool(rest) or len(groups) > 1))
        s = rel
        for g in groups:
            s = s.slice({n: asg[n] for n in g})
        rest = [n for n in dims if n not in part]
        sdims = [v.name for v in s.dimensions]
        eng.notes["outcome"].update({"part": part, "steps": len(groups), "sdims": sdims})
        eng.prove(sorted(sdims) == sorted(rest) and (kind != "matrix" or sdims == rest),
                  "sliced relation is not defined over exactly the remaining variables", regions=regs,
                  detail=str((kind, dims, part, sdims)))
        got = s(**{n: asg[n] for n in rest}) if rest else s()
        eng.prove(_same(got, want), "sliced relation disagrees with the original on a completion", regions=regs,
                  detail=str((kind, dims, part, len(groups), asg)))
    except Exception as e:
        eng.fail("evaluation/slicing raised %s: %s" % (type(e).__name__, e), regions=regs, detail=traceback.format_exc(limit=-5))
