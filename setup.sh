#!/bin/sh
# Build the overlay venv used by every check (offline, idempotent), next to this script.
set -e
HERE="$(cd "$(dirname "$0")" && pwd)"
V="$HERE/.venv"
if [ ! -x "$V/bin/python" ] || ! "$V/bin/python" -c "import z3, jsonschema" 2>/dev/null; then
  rm -rf "$V"
  /venv/bin/python -m venv "$V"
  SP=$("$V/bin/python" -c "import site; print(site.getsitepackages()[0])")
  printf '/venv/lib/python3.12/site-packages\n' > "$SP/verif_overlay.pth"
  PIP_NO_INDEX=1 "$V/bin/pip" install -q --no-index --find-links /opt/veriftools/wheels z3-solver jsonschema >/dev/null
fi
"$V/bin/python" -c "import z3, numpy, pulp, yaml; print('verif venv ok', z3.get_version_string())"
